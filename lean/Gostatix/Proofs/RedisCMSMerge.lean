/-
  Gostatix.Proofs.RedisCMSMerge — `initMatrix` and `mergeMatrix` of count_min_sketch_redis.go
  against `CMS.new` / `CMS.merge`, and the abstraction-level statements for all CMS scripts.
-/
import Gostatix.Proofs.RedisCMS
namespace Gostatix.Redis

theorem RowsAre.congr' {s s' : Store} {key : String} {cols : Nat} {r : Nat} {m : List (List Nat)}
    (h : RowsAre s key cols r m)
    (e : ∀ j, r ≤ j → j < r + m.length → s' (cmsRowKey key j) = s (cmsRowKey key j)) :
    RowsAre s' key cols r m := by
  induction m generalizing r with
  | nil => trivial
  | cons row m ih =>
    refine ⟨h.1.congr (e r (Nat.le_refl _) (by simp)), ih h.2 (fun j hj hj' => e j (by omega) ?_)⟩
    simp only [List.length_cons]; omega

/-! ### init -/

theorem cmsInitLoop_spec (key : String) (cols : Nat) (hcols : 0 < cols) :
    ∀ (n r : Nat) (s : Store),
      ∃ s', cmsInitLoop key cols r n s = (s', some ()) ∧
        RowsAre s' key cols r (List.replicate n (List.replicate cols 0)) ∧
        (∀ k, (∀ j, r ≤ j → j < r + n → k ≠ cmsRowKey key j) → s' k = s k) := by
  intro n
  induction n with
  | zero => intro r s; exact ⟨s, rfl, trivial, fun _ _ => rfl⟩
  | succ n ih =>
    intro r s
    have hne : List.replicate cols (decimal 0) ≠ [] := by
      cases cols with
      | zero => omega
      | succ c => simp [List.replicate_succ]
    let s1 := (s.del (cmsRowKey key r)).set (cmsRowKey key r)
      (.list (List.replicate cols (decimal 0)).reverse)
    obtain ⟨s', hrun, hrows, hframe⟩ := ih (r + 1) s1
    rw [List.replicate_succ]
    refine ⟨s', ?_, ⟨⟨(List.replicate cols (decimal 0)).reverse, ?_, ?_, ?_⟩, hrows⟩, ?_⟩
    · unfold cmsInitLoop
      have h1 : cmdDEL (cmsRowKey key r) s = (s.del (cmsRowKey key r), some ()) := rfl
      rw [Script.bind_ok h1, Script.bind_ok (cmdLPUSH_none (Store.del_self _ _) hne)]
      exact hrun
    · rw [hframe _ (fun j hj _ e => by have := cmsRowKey_inj e; omega)]
      exact Store.set_self _ _ _
    · simp
    · simp [List.map_replicate, parseDecimal_decimal]
    · intro k hk
      rw [hframe k (fun j hj hj' => hk j (by omega) (by omega))]
      have hkr := hk r (Nat.le_refl _) (by omega)
      show ((s.del (cmsRowKey key r)).set _ _) k = s k
      rw [Store.set_ne _ _ hkr, Store.del_ne _ hkr]

/-! ### merge -/

theorem cmsAddVals_spec :
    ∀ (n : Nat) (l1 l2 : List String) (row1 row2 : List Nat) (s : Store),
      l1.length = n → l2.length = n →
      l1.map parseDecimal = row1.map some → l2.map parseDecimal = row2.map some →
      cmsAddVals n l1 l2 s = (s, some ((List.zipWith (· + ·) row1 row2).map decimal)) := by
  intro n
  induction n with
  | zero =>
    intro l1 l2 row1 row2 s h1 h2 m1 m2
    cases l1 with
    | cons a l => simp at h1
    | nil =>
      cases row1 with
      | cons x r => simp at m1
      | nil => rfl
  | succ n ih =>
    intro l1 l2 row1 row2 s h1 h2 m1 m2
    cases l1 with
    | nil => simp at h1
    | cons a l1 =>
      cases l2 with
      | nil => simp at h2
      | cons b l2 =>
        cases row1 with
        | nil => simp at m1
        | cons x row1 =>
          cases row2 with
          | nil => simp at m2
          | cons y row2 =>
            simp only [List.map_cons, List.cons.injEq] at m1 m2
            simp only [List.length_cons, Nat.add_right_cancel_iff] at h1 h2
            unfold cmsAddVals
            simp only [List.head?_cons, List.tail_cons]
            rw [Script.bind_ok (luaNumber_some m1.1 s), Script.bind_ok (luaNumber_some m2.1 s),
              Script.bind_ok (ih l1 l2 row1 row2 s h1 h2 m1.2 m2.2)]
            rfl

theorem zipWith_add_length {r1 r2 : List Nat} {n : Nat} (h1 : r1.length = n) (h2 : r2.length = n) :
    (List.zipWith (· + ·) r1 r2).length = n := by
  simp [List.length_zipWith, h1, h2]

theorem cmsMergeLoop_spec (key1 key2 : String) (cols : Nat) (hcols : 0 < cols) (R : Nat)
    (hd : ∀ i j, i < R → j < R → cmsRowKey key1 i ≠ cmsRowKey key2 j) :
    ∀ (n r : Nat) (s : Store) (m1 m2 : List (List Nat)),
      r + n ≤ R → m1.length = n → m2.length = n →
      RowsAre s key1 cols r m1 → RowsAre s key2 cols r m2 →
      ∃ s', cmsMergeLoop key1 key2 cols r n s = (s', some ()) ∧
        RowsAre s' key1 cols r (CMS.addRows m1 m2) ∧
        (∀ k, (∀ j, r ≤ j → j < r + n → k ≠ cmsRowKey key1 j) → s' k = s k) := by
  intro n
  induction n with
  | zero =>
    intro r s m1 m2 _ h1 h2 _ _
    cases m1 with
    | cons a l => simp at h1
    | nil => exact ⟨s, rfl, trivial, fun _ _ => rfl⟩
  | succ n ih =>
    intro r s m1 m2 hR h1 h2 hm1 hm2
    cases m1 with
    | nil => simp at h1
    | cons row1 m1 =>
      cases m2 with
      | nil => simp at h2
      | cons row2 m2 =>
        simp only [List.length_cons, Nat.add_right_cancel_iff] at h1 h2
        obtain ⟨⟨l1, hl1, hll1, hlm1⟩, hrest1⟩ := hm1
        obtain ⟨⟨l2, hl2, hll2, hlm2⟩, hrest2⟩ := hm2
        let vals3 := (List.zipWith (· + ·) row1 row2).map decimal
        have hrl1 : row1.length = cols := (RowIs.length ⟨l1, hl1, hll1, hlm1⟩)
        have hrl2 : row2.length = cols := (RowIs.length ⟨l2, hl2, hll2, hlm2⟩)
        have hv3len : vals3.length = cols := by
          simp only [vals3, List.length_map]; exact zipWith_add_length hrl1 hrl2
        have hv3 : vals3 ≠ [] := by
          intro e; rw [e] at hv3len; simp at hv3len; omega
        let s1 := (s.del (cmsRowKey key1 r)).set (cmsRowKey key1 r) (.list vals3)
        have hs1 : ∀ k, k ≠ cmsRowKey key1 r → s1 k = s k := by
          intro k hk
          show ((s.del (cmsRowKey key1 r)).set _ _) k = s k
          rw [Store.set_ne _ _ hk, Store.del_ne _ hk]
        have hrest1' : RowsAre s1 key1 cols (r + 1) m1 :=
          hrest1.congr (fun j hj => hs1 _ (fun e => by have := cmsRowKey_inj e; omega))
        have hrest2' : RowsAre s1 key2 cols (r + 1) m2 :=
          hrest2.congr' (fun j hj hj' => hs1 _ (fun e => hd r j (by omega) (by omega) e.symm))
        obtain ⟨s', hrun, hrows, hframe⟩ := ih (r + 1) s1 m1 m2 (by omega) h1 h2 hrest1' hrest2'
        refine ⟨s', ?_, ⟨?_, hrows⟩, ?_⟩
        · unfold cmsMergeLoop
          rw [Script.bind_ok (cmdLRANGE_list hl1), Script.bind_ok (cmdLRANGE_list hl2),
            Script.bind_ok (cmsAddVals_spec cols l1 l2 row1 row2 s hll1 hll2 hlm1 hlm2)]
          have h1 : cmdDEL (cmsRowKey key1 r) s = (s.del (cmsRowKey key1 r), some ()) := rfl
          rw [Script.bind_ok h1, Script.bind_ok (cmdRPUSH_none (Store.del_self _ _) hv3)]
          exact hrun
        · refine ⟨vals3, ?_, hv3len, map_decimal_parse _⟩
          rw [hframe _ (fun j hj _ e => by have := cmsRowKey_inj e; omega)]
          exact Store.set_self _ _ _
        · intro k hk
          rw [hframe k (fun j hj hj' => hk j (by omega) (by omega))]
          exact hs1 k (hk r (Nat.le_refl _) (by omega))

theorem addRows_length (m1 m2 : List (List Nat)) : (CMS.addRows m1 m2).length = m1.length := by
  induction m1 generalizing m2 with
  | nil => cases m2 <;> rfl
  | cons row m1 ih => cases m2 <;> simp [CMS.addRows, ih]

/-! ### abstraction-level statements -/

theorem cms_init_abs (h : CMSHandle) (s : Store) (hcols : 0 < h.cols) :
    ∃ s', cmsInit h s = (s', some ()) ∧ absCMS s' h = some (CMS.new h.rows h.cols) := by
  obtain ⟨s', hrun, hrows, _⟩ := cmsInitLoop_spec h.key h.cols hcols h.rows 0 s
  refine ⟨s', hrun, (absCMS_eq_some_iff _ _ _).mpr ⟨rfl, rfl, ?_, hrows⟩⟩
  simp [CMS.new]

theorem cms_update_abs (h : CMSHandle) (s : Store) (c : CMS) (pos : List Nat) (count : Nat)
    (habs : absCMS s h = some c) (hlen : pos.length ≤ h.rows) (hpos : ∀ p ∈ pos, p < h.cols) :
    ∃ s', cmsUpdate h pos count s = (s', some ()) ∧ absCMS s' h = some (c.update pos count) := by
  obtain ⟨h1, h2, h3, h4⟩ := (absCMS_eq_some_iff _ _ _).mp habs
  obtain ⟨s', hrun, hrows, _⟩ :=
    cmsUpdateLoop_spec h.key h.cols count pos 0 s c.m (by omega) h4 hpos
  refine ⟨s', hrun, (absCMS_eq_some_iff _ _ _).mpr ⟨h1, h2, ?_, hrows⟩⟩
  simp only [CMS.update, updRows_length]; exact h3

theorem cms_count_abs (h : CMSHandle) (s : Store) (c : CMS) (pos : List Nat)
    (habs : absCMS s h = some c) (hlen : pos.length ≤ h.rows) (hpos : ∀ p ∈ pos, p < h.cols) :
    cmsCount h pos s = (s, some (c.count pos)) := by
  obtain ⟨h1, h2, h3, h4⟩ := (absCMS_eq_some_iff _ _ _).mp habs
  exact cmsCount_spec h.key h.cols pos s c.m (by omega) h4 hpos

theorem cms_merge_abs (h1 h2 : CMSHandle) (s : Store) (a b : CMS)
    (ha : absCMS s h1 = some a) (hb : absCMS s h2 = some b) (hcols : 0 < h1.cols)
    (hd : ∀ i j, i < h1.rows → j < h2.rows → cmsRowKey h1.key i ≠ cmsRowKey h2.key j) :
    match CMS.merge a b with
    | .ok c => ∃ s', cmsMerge h1 h2 s = (s', some ()) ∧ absCMS s' h1 = some c ∧ absCMS s' h2 = some b
    | .err => cmsMerge h1 h2 s = (s, none) := by
  obtain ⟨a1, a2, a3, a4⟩ := (absCMS_eq_some_iff _ _ _).mp ha
  obtain ⟨b1, b2, b3, b4⟩ := (absCMS_eq_some_iff _ _ _).mp hb
  unfold CMS.merge cmsMerge
  by_cases hr : h1.rows = h2.rows
  · by_cases hc : h1.cols = h2.cols
    · have e1 : ¬ (a.rows ≠ b.rows) := by omega
      have e2 : ¬ (a.cols ≠ b.cols) := by omega
      have e3 : ¬ (h1.rows ≠ h2.rows) := by omega
      have e4 : ¬ (h1.cols ≠ h2.cols) := by omega
      rw [if_neg e1, if_neg e2, if_neg e3, if_neg e4]
      simp only
      have hd' : ∀ i j, i < h1.rows → j < h1.rows → cmsRowKey h1.key i ≠ cmsRowKey h2.key j :=
        fun i j hi hj => hd i j hi (by omega)
      obtain ⟨s', hrun, hrows, hframe⟩ :=
        cmsMergeLoop_spec h1.key h2.key h1.cols hcols h1.rows hd' h1.rows 0 s a.m b.m
          (by omega) a3 (by omega) a4 (hc ▸ b4)
      refine ⟨s', ?_, ?_, ?_⟩
      · exact hrun
      · refine (absCMS_eq_some_iff _ _ _).mpr ⟨a1, a2, ?_, hrows⟩
        simp only [addRows_length]; exact a3
      · refine (absCMS_eq_some_iff _ _ _).mpr ⟨b1, b2, b3, b4.congr' ?_⟩
        intro j _ hj
        apply hframe
        intro i _ hi e
        exact hd i j (by omega) (by omega) e.symm
    · have e1 : ¬ (a.rows ≠ b.rows) := by omega
      have e2 : a.cols ≠ b.cols := by omega
      have e3 : ¬ (h1.rows ≠ h2.rows) := by omega
      have e4 : h1.cols ≠ h2.cols := by omega
      rw [if_neg e1, if_pos e2, if_neg e3, if_pos e4]
      rfl
  · have e1 : a.rows ≠ b.rows := by omega
    have e3 : h1.rows ≠ h2.rows := by omega
    rw [if_pos e1, if_pos e3]
    rfl

/-- distinct 16-letter keys give the row-key disjointness used by `cms_merge_abs`. -/
theorem cmsRowKey_ne_of_base {k1 k2 : String} (hb1 : IsBase k1) (hb2 : IsBase k2) (hne : k1 ≠ k2)
    (i j : Nat) : cmsRowKey k1 i ≠ cmsRowKey k2 j := by
  intro e
  have := KeyD.render_inj (d₁ := .row k1 i) (d₂ := .row k2 j) hb1 hb2 e
  cases this
  exact hne rfl

end Gostatix.Redis
