/-
  Gostatix.Proofs.Conc — lemmas about interleavings, commuting steps and mutex-guarded calls.
-/
import Gostatix.Model.Conc
import Gostatix.Model.Bloom
import Gostatix.Model.CMS
import Gostatix.Model.HLL
namespace Gostatix.Conc

universe u v

/-! ### commuting steps -/

/-- if all steps commute, the result of a fold only depends on the multiset of steps. -/
theorem foldl_perm_of_commute {σ : Type u} {α : Type v} {f : σ → α → σ} (hc : Commute f)
    {l₁ l₂ : List α} (p : l₁.Perm l₂) (s : σ) : l₁.foldl f s = l₂.foldl f s := by
  induction p generalizing s with
  | nil => rfl
  | cons a _ ih => simp only [List.foldl_cons]; exact ih _
  | swap a b l => simp only [List.foldl_cons]; rw [hc s b a]
  | trans _ _ ih1 ih2 => rw [ih1, ih2]

/-- the same when only the steps that occur are known to commute -/
theorem foldl_perm_of_commute_on {σ : Type u} {α : Type v} {f : σ → α → σ} {l₁ l₂ : List α}
    (p : l₁.Perm l₂) (hc : ∀ a ∈ l₁, ∀ b ∈ l₁, ∀ s, f (f s a) b = f (f s b) a) (s : σ) :
    l₁.foldl f s = l₂.foldl f s := by
  induction p generalizing s with
  | nil => rfl
  | cons a _ ih =>
    simp only [List.foldl_cons]
    exact ih (fun a ha b hb => hc a (List.mem_cons_of_mem _ ha) b (List.mem_cons_of_mem _ hb)) _
  | swap a b l => simp only [List.foldl_cons]; rw [hc b (by simp) a (by simp) s]
  | trans p1 _ ih1 ih2 =>
    rw [ih1 hc, ih2 (fun a ha b hb => hc a (p1.mem_iff.2 ha) b (p1.mem_iff.2 hb))]

theorem exec_perm_of_commute {σ : Type u} {α : Type v} {f : σ → α → σ} (hc : Commute f)
    {l₁ l₂ : List α} (p : l₁.Perm l₂) (s : σ) : exec f s l₁ = exec f s l₂ :=
  foldl_perm_of_commute hc p s

theorem execThreads_eq_exec_flatten {σ : Type u} {α : Type v} (f : σ → α → σ) (s : σ)
    (ts : List (List α)) : execThreads f s ts = exec f s ts.flatten := by
  simp [execThreads, exec, List.foldl_flatten]

/-! ### interleavings -/

theorem flatten_perm_of_getElem? {α : Type u} {ts : List (List α)} {i : Nat} {a : α} {t : List α}
    (h : ts[i]? = some (a :: t)) : ts.flatten.Perm (a :: (ts.set i t).flatten) := by
  induction ts generalizing i with
  | nil => simp at h
  | cons x xs ih =>
    cases i with
    | zero =>
      simp at h; subst h; simp
    | succ i =>
      simp at h
      have := ih h
      simp only [List.set_cons_succ, List.flatten_cons]
      exact (List.Perm.append_left x this).trans List.perm_middle

/-- a schedule is a permutation of all the steps of all the threads -/
theorem Interleaving.perm {α : Type u} {ts : List (List α)} {w : List α} (h : Interleaving ts w) :
    w.Perm ts.flatten := by
  induction h with
  | done ts he =>
    have : ts.flatten = [] := by simpa [List.flatten_eq_nil_iff] using he
    rw [this]
  | step ts i a t w hg _ ih =>
    exact (List.Perm.cons a ih).trans (flatten_perm_of_getElem? hg).symm

/-- every thread's steps occur in the schedule in program order -/
theorem Interleaving.sublist {α : Type u} {ts : List (List α)} {w : List α} (h : Interleaving ts w) :
    ∀ t ∈ ts, t.Sublist w := by
  induction h with
  | done ts he => intro t ht; rw [he t ht]; exact List.Sublist.refl _
  | step ts i a t w hg _ ih =>
    intro t' ht'
    obtain ⟨j, hj⟩ := List.mem_iff_getElem?.1 ht'
    by_cases e : i = j
    · subst e
      rw [hg] at hj; cases hj
      have hlt : i < ts.length := by
        rcases Nat.lt_or_ge i ts.length with h | h
        · exact h
        · rw [List.getElem?_eq_none h] at hg; cases hg
      have : t ∈ ts.set i t := List.mem_iff_getElem?.2 ⟨i, by simp [hlt]⟩
      exact (ih t this).cons_cons a
    · have : t' ∈ ts.set i t := List.mem_iff_getElem?.2 ⟨j, by simp [e, hj]⟩
      exact (ih t' this).cons a

/-- when every step of thread `i` carries the tag `i`, the projection of the schedule on tag `i`
    is thread `i`'s step list -/
theorem Interleaving.filter_tag {α : Type u} {ts : List (List α)} {w : List α} (tag : α → Nat)
    (h : Interleaving ts w)
    (htag : ∀ i t, ts[i]? = some t → ∀ a ∈ t, tag a = i) :
    ∀ i, w.filter (fun a => tag a == i) = (ts[i]?).getD [] := by
  induction h with
  | done ts he =>
    intro i
    cases hi : ts[i]? with
    | none => simp
    | some t => simp [he t (List.mem_iff_getElem?.2 ⟨i, hi⟩)]
  | step ts i a t w hg _ ih =>
    have hlt : i < ts.length := by
      rcases Nat.lt_or_ge i ts.length with h | h
      · exact h
      · rw [List.getElem?_eq_none h] at hg; cases hg
    have htag' : ∀ j t', (ts.set i t)[j]? = some t' → ∀ a ∈ t', tag a = j := by
      intro j t' hj b hb
      by_cases e : i = j
      · subst e
        simp [hlt] at hj; subst hj
        exact htag i (a :: t) hg b (List.mem_cons_of_mem _ hb)
      · simp [e] at hj
        exact htag j t' hj b hb
    have ha : tag a = i := htag i (a :: t) hg a (List.mem_cons_self ..)
    intro j
    have := ih htag' j
    have hg' : ts[i] = a :: t := by
      rw [List.getElem?_eq_getElem hlt] at hg; exact Option.some.inj hg
    by_cases e : i = j
    · subst e
      simp [ha, this, hg', hlt]
    · have hne : ¬ tag a = j := by rw [ha]; exact e
      simp [hne, this, e]

theorem Interleaving.shift {α : Type u} {ts : List (List α)} {w : List α} (h : Interleaving ts w) :
    Interleaving ([] :: ts) w := by
  induction h with
  | done ts he => exact .done _ (by intro t ht; cases ht with | head => rfl | tail _ h => exact he t h)
  | step ts i a t w hg _ ih =>
    exact .step _ (i + 1) a t w (by simpa using hg) (by simpa using ih)

theorem Interleaving.cons_thread {α : Type u} {ts : List (List α)} {w : List α} (t : List α)
    (h : Interleaving ts w) : Interleaving (t :: ts) (t ++ w) := by
  induction t with
  | nil => exact h.shift
  | cons a t ih => exact .step _ 0 a t _ (by simp) (by simpa using ih)

/-- running the threads one after another is one of the interleavings -/
theorem Interleaving.sequential {α : Type u} (ts : List (List α)) : Interleaving ts ts.flatten := by
  induction ts with
  | nil => exact .done _ (by simp)
  | cons t ts ih => simpa using ih.cons_thread t

/-- a schedule given by thread indices is an interleaving -/
theorem Interleaving.of_pick {α : Type u} {ts : List (List α)} {is : List Nat} {w : List α}
    (h : pick ts is = some w) : Interleaving ts w := by
  induction is generalizing ts w with
  | nil =>
    simp only [pick] at h
    split at h
    · next he =>
      cases h
      exact .done _ (by
        intro t ht
        have := List.all_eq_true.1 he t ht
        simpa using this)
    · cases h
  | cons i is ih =>
    simp only [pick] at h
    split at h
    · next a t hg =>
      cases hp : pick (ts.set i t) is with
      | none => simp [hp] at h
      | some w' =>
        simp [hp] at h; subst h
        exact .step _ i a t w' hg (ih hp)
    · cases h

/-- with commuting steps every interleaving ends in the state of running the threads one after
    another -/
theorem exec_interleaving_of_commute {σ : Type u} {α : Type v} {f : σ → α → σ} (hc : Commute f)
    {ts : List (List α)} {w : List α} (h : Interleaving ts w) (s : σ) :
    exec f s w = execThreads f s ts := by
  rw [execThreads_eq_exec_flatten]
  exact exec_perm_of_commute hc h.perm s

/-! ### programs of guarded calls -/

/-- calls `i, i+1, …, i+k-1` of thread `t` -/
def callsFrom (t : Nat) : Nat → Nat → List Act
  | _, 0 => []
  | i, k + 1 => .acq t :: .body t i :: .rel t :: callsFrom t (i + 1) k

theorem flatMap_range' (t i k : Nat) : (List.range' i k).flatMap (call t) = callsFrom t i k := by
  induction k generalizing i with
  | zero => rfl
  | succ k ih => simp [List.range'_succ, call, callsFrom, ih]

theorem prog_eq_callsFrom (t n : Nat) : prog t n = callsFrom t 0 n := by
  simp [prog, List.range_eq_range', flatMap_range']

/-- the `j`-th action of `callsFrom t i k` -/
def actAt (t i j : Nat) : Act :=
  if j % 3 = 0 then .acq t else if j % 3 = 1 then .body t (i + j / 3) else .rel t

theorem callsFrom_getElem? (t i k j : Nat) :
    (callsFrom t i k)[j]? = if j < 3 * k then some (actAt t i j) else none := by
  induction k generalizing i j with
  | zero => simp [callsFrom]
  | succ k ih =>
    match j with
    | 0 => simp [callsFrom, actAt]
    | 1 => simp [callsFrom, actAt]; omega
    | 2 => simp [callsFrom, actAt]; omega
    | j + 3 =>
      simp only [callsFrom, List.getElem?_cons_succ, ih]
      have h1 : (j + 3) % 3 = j % 3 := by omega
      have h2 : i + 1 + j / 3 = i + (j / 3 + 1) := by omega
      have h3 : (j + 3 < 3 * (k + 1)) ↔ (j < 3 * k) := by omega
      simp [actAt, h1, h2, h3]

theorem callsFrom_length (t i k : Nat) : (callsFrom t i k).length = 3 * k := by
  induction k generalizing i with
  | zero => rfl
  | succ k ih => simp [callsFrom, ih]; omega

theorem drop_eq_cons {α : Type u} {l : List α} {k : Nat} {a : α} {r : List α}
    (h : l.drop k = a :: r) : l[k]? = some a ∧ l.drop (k + 1) = r := by
  constructor
  · have := List.getElem?_drop (xs := l) (i := k) (j := 0)
    rw [h] at this; simpa using this.symm
  · have : (l.drop k).drop 1 = r := by rw [h]; rfl
    rw [← this, List.drop_drop]

theorem mem_callsFrom_tid (t i k : Nat) : ∀ a ∈ callsFrom t i k, a.tid = t := by
  induction k generalizing i with
  | zero => simp [callsFrom]
  | succ k ih =>
    intro a ha
    simp only [callsFrom, List.mem_cons] at ha
    rcases ha with rfl | rfl | rfl | ha
    · rfl
    · rfl
    · rfl
    · exact ih _ a ha

theorem progsFrom_getElem? (t : Nat) (ns : List Nat) (i : Nat) :
    (progsFrom t ns)[i]? = (ns[i]?).map (fun n => prog (t + i) n) := by
  induction ns generalizing t i with
  | nil => simp [progsFrom]
  | cons n ns ih =>
    cases i with
    | zero => simp [progsFrom]
    | succ i =>
      simp only [progsFrom, List.getElem?_cons_succ, ih]
      have : t + 1 + i = t + (i + 1) := by omega
      rw [this]

theorem bodiesOf_filter (w : List Act) (t : Nat) :
    (bodiesOf w).filter (fun c => c.1 == t) = bodiesOf (w.filter (fun a => a.tid == t)) := by
  induction w with
  | nil => rfl
  | cons a w ih =>
    cases a with
    | acq u => by_cases e : u = t <;> simp [bodiesOf, Act.tid, e, ih]
    | body u i => by_cases e : u = t <;> simp [bodiesOf, Act.tid, e, ih]
    | rel u => by_cases e : u = t <;> simp [bodiesOf, Act.tid, e, ih]

theorem bodiesOf_append (a b : List Act) : bodiesOf (a ++ b) = bodiesOf a ++ bodiesOf b := by
  induction a with
  | nil => rfl
  | cons x a ih => cases x <;> simp [bodiesOf, ih]

theorem bodiesOf_callsFrom (t i k : Nat) :
    bodiesOf (callsFrom t i k) = (List.range' i k).map (fun j => (t, j)) := by
  induction k generalizing i with
  | zero => rfl
  | succ k ih => simp [callsFrom, bodiesOf, ih, List.range'_succ]

theorem bodiesOf_prog (t n : Nat) : bodiesOf (prog t n) = (List.range n).map (fun j => (t, j)) := by
  rw [prog_eq_callsFrom, bodiesOf_callsFrom, List.range_eq_range']

theorem bodiesOf_flatten_progsFrom (t : Nat) (ns : List Nat) :
    bodiesOf (progsFrom t ns).flatten = callIdsFrom t ns := by
  induction ns generalizing t with
  | nil => rfl
  | cons n ns ih => simp [progsFrom, callIdsFrom, bodiesOf_append, bodiesOf_prog, ih]

theorem bodiesOf_perm {a b : List Act} (p : a.Perm b) : (bodiesOf a).Perm (bodiesOf b) := by
  induction p with
  | nil => exact .nil
  | cons x _ ih => cases x <;> simp [bodiesOf, ih]
  | swap x y l =>
    cases x <;> cases y <;> simp [bodiesOf] <;> exact List.Perm.swap ..
  | trans _ _ ih1 ih2 => exact ih1.trans ih2

/-! ### the key lemma: in a valid schedule the bodies run in lock-acquisition order -/

/-- what the head of a schedule must be, given the projections on the threads -/
theorem head_facts (n pc : Nat → Nat) (a : Act) (w : List Act) (t0 : Nat) (ht0 : a.tid = t0)
    (hproj : ∀ t, (a :: w).filter (fun b => b.tid == t) = (prog t (n t)).drop (pc t)) :
    pc t0 < 3 * n t0 ∧ actAt t0 0 (pc t0) = a ∧
    ∀ pc' : Nat → Nat, pc' t0 = pc t0 + 1 → (∀ t, t ≠ t0 → pc' t = pc t) →
      ∀ t, w.filter (fun b => b.tid == t) = (prog t (n t)).drop (pc' t) := by
  have h0 := hproj t0
  simp only [List.filter_cons, ht0, beq_self_eq_true, if_true] at h0
  obtain ⟨hget, hdrop⟩ := drop_eq_cons h0.symm
  rw [prog_eq_callsFrom, callsFrom_getElem?] at hget
  have hlt : pc t0 < 3 * n t0 := by
    rcases Nat.lt_or_ge (pc t0) (3 * n t0) with h | h
    · exact h
    · simp [Nat.not_lt.2 h] at hget
  simp only [hlt, if_true, Option.some.injEq] at hget
  refine ⟨hlt, hget, ?_⟩
  intro pc' h1 h2 t
  by_cases e : t = t0
  · subst e; rw [h1]; exact hdrop.symm
  · have := hproj t
    have hne : ¬ t0 = t := fun h => e h.symm
    simp only [List.filter_cons, ht0, beq_iff_eq, hne, if_false] at this
    rw [h2 t e]; exact this

theorem bodies_eq_acqOrder_aux (n : Nat → Nat) :
    ∀ (w : List Act) (h : Option Nat) (pc cnt : Nat → Nat),
      (∀ t, w.filter (fun a => a.tid == t) = (prog t (n t)).drop (pc t)) →
      validFrom h w = true →
      (∀ t, h = some t ↔ pc t % 3 ≠ 0) →
      (∀ t, pc t ≤ 3 * n t) →
      (∀ t, cnt t = (pc t + 2) / 3) →
      bodiesOf w =
        (match h with
          | some t => if pc t % 3 = 1 then [(t, pc t / 3)] else []
          | none => []) ++ acqOrderFrom cnt w := by
  intro w
  induction w with
  | nil =>
    intro h pc cnt hproj _ hinv hle _
    cases h with
    | none => rfl
    | some t =>
      have h1 := hproj t
      have hlen : (prog t (n t)).length = 3 * n t := by rw [prog_eq_callsFrom, callsFrom_length]
      have : (List.drop (pc t) (prog t (n t))).length = 0 := by rw [← h1]; rfl
      rw [List.length_drop, hlen] at this
      have h2 := (hinv t).1 rfl
      have h3 := hle t
      have : ¬ pc t % 3 = 1 := by omega
      simp [this, acqOrderFrom, bodiesOf]
  | cons a w ih =>
    intro h pc cnt hproj hval hinv hle hcnt
    cases a with
    | acq t0 =>
      obtain ⟨hlt, hget, hproj'⟩ := head_facts n pc _ w t0 rfl hproj
      obtain ⟨pc', hp0, hpne⟩ : ∃ pc' : Nat → Nat, pc' t0 = pc t0 + 1 ∧ ∀ t, t ≠ t0 → pc' t = pc t :=
        ⟨fun u => if u = t0 then pc u + 1 else pc u, by simp, by intro t ht; simp [ht]⟩
      have hm : pc t0 % 3 = 0 := by
        unfold actAt at hget
        split at hget
        · assumption
        · split at hget <;> cases hget
      simp only [validFrom, Bool.and_eq_true] at hval
      obtain ⟨hnone, hval'⟩ := hval
      have hn : h = none := by cases h <;> simp_all
      subst hn
      have hinv' : ∀ t, some t0 = some t ↔ pc' t % 3 ≠ 0 := by
        intro t
        by_cases e : t = t0
        · subst e; rw [hp0]; constructor
          · intro _; omega
          · intro _; rfl
        · rw [hpne t e]
          constructor
          · intro h; cases h; exact absurd rfl e
          · intro h; exact absurd ((hinv t).2 h) (by simp)
      have hcnt' : ∀ t, (fun u => if u = t0 then cnt u + 1 else cnt u) t = (pc' t + 2) / 3 := by
        intro t
        by_cases e : t = t0
        · subst e; simp only [if_true]; rw [hp0, hcnt]; omega
        · simp only [e, if_false]; rw [hpne t e]; exact hcnt t
      have hle' : ∀ t, pc' t ≤ 3 * n t := by
        intro t; by_cases e : t = t0
        · subst e; rw [hp0]; omega
        · rw [hpne t e]; exact hle t
      have := ih (some t0) pc' _ (hproj' pc' hp0 hpne) hval' hinv' hle' hcnt'
      have hpc1 : pc' t0 % 3 = 1 := by rw [hp0]; omega
      have hpc2 : pc' t0 / 3 = cnt t0 := by rw [hp0, hcnt]; omega
      simp only [bodiesOf, acqOrderFrom, List.nil_append]
      rw [this]
      simp [hpc1, hpc2]
    | body t0 i =>
      obtain ⟨hlt, hget, hproj'⟩ := head_facts n pc _ w t0 rfl hproj
      obtain ⟨pc', hp0, hpne⟩ : ∃ pc' : Nat → Nat, pc' t0 = pc t0 + 1 ∧ ∀ t, t ≠ t0 → pc' t = pc t :=
        ⟨fun u => if u = t0 then pc u + 1 else pc u, by simp, by intro t ht; simp [ht]⟩
      have hm : pc t0 % 3 = 1 ∧ i = pc t0 / 3 := by
        unfold actAt at hget
        split at hget
        · cases hget
        · split at hget
          · next h1 => cases hget; exact ⟨h1, by omega⟩
          · cases hget
      obtain ⟨hm1, hi⟩ := hm
      have hh : h = some t0 := (hinv t0).2 (by omega)
      subst hh
      simp only [validFrom] at hval
      have hinv' : ∀ t, some t0 = some t ↔ pc' t % 3 ≠ 0 := by
        intro t
        by_cases e : t = t0
        · subst e; rw [hp0]; constructor
          · intro _; omega
          · intro _; rfl
        · rw [hpne t e]; exact hinv t
      have hcnt' : ∀ t, cnt t = (pc' t + 2) / 3 := by
        intro t
        by_cases e : t = t0
        · subst e; rw [hp0, hcnt]; omega
        · rw [hpne t e]; exact hcnt t
      have hle' : ∀ t, pc' t ≤ 3 * n t := by
        intro t; by_cases e : t = t0
        · subst e; rw [hp0]; omega
        · rw [hpne t e]; exact hle t
      have := ih (some t0) pc' cnt (hproj' pc' hp0 hpne) hval hinv' hle' hcnt'
      have hpc1 : ¬ pc' t0 % 3 = 1 := by rw [hp0]; omega
      simp only [bodiesOf, acqOrderFrom]
      rw [this]
      simp [hpc1, hm1, hi]
    | rel t0 =>
      obtain ⟨hlt, hget, hproj'⟩ := head_facts n pc _ w t0 rfl hproj
      obtain ⟨pc', hp0, hpne⟩ : ∃ pc' : Nat → Nat, pc' t0 = pc t0 + 1 ∧ ∀ t, t ≠ t0 → pc' t = pc t :=
        ⟨fun u => if u = t0 then pc u + 1 else pc u, by simp, by intro t ht; simp [ht]⟩
      have hm : pc t0 % 3 = 2 := by
        unfold actAt at hget
        split at hget
        · cases hget
        · split at hget
          · cases hget
          · omega
      have hh : h = some t0 := (hinv t0).2 (by omega)
      subst hh
      simp only [validFrom] at hval
      have hinv' : ∀ t, none = some t ↔ pc' t % 3 ≠ 0 := by
        intro t
        by_cases e : t = t0
        · subst e; rw [hp0]
          constructor
          · intro h; cases h
          · intro h; omega
        · rw [hpne t e]
          constructor
          · intro h; cases h
          · intro h
            have := (hinv t).2 h
            cases this; exact absurd rfl e
      have hcnt' : ∀ t, cnt t = (pc' t + 2) / 3 := by
        intro t
        by_cases e : t = t0
        · subst e; rw [hp0, hcnt]; omega
        · rw [hpne t e]; exact hcnt t
      have hle' : ∀ t, pc' t ≤ 3 * n t := by
        intro t; by_cases e : t = t0
        · subst e; rw [hp0]; omega
        · rw [hpne t e]; exact hle t
      have := ih none pc' cnt (hproj' pc' hp0 hpne) hval hinv' hle' hcnt'
      have hpc1 : ¬ pc t0 % 3 = 1 := by omega
      simp only [bodiesOf, acqOrderFrom]
      rw [this]
      simp [hpc1]

theorem progs_tagged (ns : List Nat) :
    ∀ (i : Nat) (t : List Act), (progs ns)[i]? = some t → ∀ a ∈ t, Act.tid a = i := by
  intro i t h a ha
  rw [progs, progsFrom_getElem?] at h
  cases hn : ns[i]? with
  | none => simp [hn] at h
  | some n =>
    simp [hn] at h; subst h
    rw [prog_eq_callsFrom] at ha
    exact mem_callsFrom_tid _ _ _ a ha

theorem prog_zero (t : Nat) : prog t 0 = [] := rfl

/-- projection of a schedule of the programs `progs ns` on thread `t` -/
theorem proj_progs {ns : List Nat} {w : List Act} (hi : Interleaving (progs ns) w) (t : Nat) :
    w.filter (fun a => a.tid == t) = prog t ((ns[t]?).getD 0) := by
  rw [hi.filter_tag Act.tid (progs_tagged ns) t, progs, progsFrom_getElem?]
  cases ns[t]? <;> simp [prog_zero]

/-- **mutual exclusion ⇒ serial order.**  In every schedule of guarded calls that is valid for
    the mutex, the bodies run exactly in the order in which the mutex was acquired. -/
theorem bodies_eq_acqOrder {ns : List Nat} {w : List Act} (hi : Interleaving (progs ns) w)
    (hv : validMutex w) : bodiesOf w = acqOrder w := by
  have := bodies_eq_acqOrder_aux (fun t => (ns[t]?).getD 0) w none (fun _ => 0) (fun _ => 0)
    (by intro t; simpa using proj_progs hi t) hv (by intro t; simp) (by intro t; omega)
    (by intro t; rfl)
  simpa [acqOrder] using this

/-! ### executions -/

section
variable {σ : Type u} {ρ : Type v}

theorem exec_stepAct_eq (threads : List (List (σ → σ × ρ))) (r : σ × List (CallId × ρ))
    (w : List Act) : exec (stepAct threads) r w = exec (runCall threads) r (bodiesOf w) := by
  induction w generalizing r with
  | nil => rfl
  | cons a w ih =>
    cases a <;> simp only [exec, List.foldl_cons, stepAct, bodiesOf] <;> exact ih _

end

/-! ### all calls -/

theorem mem_callIdsFrom (t : Nat) (ns : List Nat) (c : CallId) :
    c ∈ callIdsFrom t ns ↔ t ≤ c.1 ∧ ∃ n, ns[c.1 - t]? = some n ∧ c.2 < n := by
  induction ns generalizing t with
  | nil => simp [callIdsFrom]
  | cons n ns ih =>
    simp only [callIdsFrom, List.mem_append, List.mem_map, List.mem_range, ih]
    constructor
    · rintro (⟨i, hi, rfl⟩ | ⟨h1, m, h2, h3⟩)
      · exact ⟨Nat.le_refl _, n, by simp, hi⟩
      · refine ⟨by omega, m, ?_, h3⟩
        have : c.1 - t = (c.1 - (t + 1)) + 1 := by omega
        rw [this]; simpa using h2
    · rintro ⟨h1, m, h2, h3⟩
      by_cases e : c.1 = t
      · left
        have : c.1 - t = 0 := by omega
        rw [this] at h2; simp at h2; subst h2
        exact ⟨c.2, h3, by rw [← e]⟩
      · right
        refine ⟨by omega, m, ?_, h3⟩
        have : c.1 - t = (c.1 - (t + 1)) + 1 := by omega
        rw [this] at h2; simpa using h2

theorem callIdsFrom_nodup (t : Nat) (ns : List Nat) : (callIdsFrom t ns).Nodup := by
  induction ns generalizing t with
  | nil => simp [callIdsFrom]
  | cons n ns ih =>
    simp only [callIdsFrom]
    rw [List.nodup_append]
    refine ⟨?_, ih _, ?_⟩
    · exact List.Pairwise.map _ (fun a b (h : a ≠ b) e => h (by cases e; rfl)) List.nodup_range
    · intro a ha b hb e
      subst e
      simp only [List.mem_map, List.mem_range] at ha
      obtain ⟨i, _, rfl⟩ := ha
      have := (mem_callIdsFrom _ _ _).1 hb
      simp at this
      omega

end Gostatix.Conc

/-! ### the update steps of Bloom, Count-Min and HyperLogLog commute -/
namespace Gostatix
open Conc

theorem modAt_comm {α : Type} (l : List α) (i j : Nat) (f g : α → α) (h : ∀ x, f (g x) = g (f x)) :
    modAt (modAt l i f) j g = modAt (modAt l j g) i f := by
  induction l generalizing i j with
  | nil => rfl
  | cons a as ih =>
    cases i <;> cases j <;> simp [modAt, h, ih]

/-- one `SETBIT p 1` -/
def setBit (bs : List Bool) (p : Nat) : List Bool := bs.set p true

theorem setBit_commute : Commute setBit := by
  intro s a b
  by_cases e : a = b
  · subst e; rfl
  · exact List.set_comm true true e

theorem setBit_idem (bs : List Bool) (p : Nat) : setBit (setBit bs p) p = setBit bs p := by
  simp [setBit]

theorem setBits_eq_exec (bits : List Bool) (ps : List Nat) : Bloom.setBits bits ps = exec setBit bits ps := rfl

theorem Bloom.insert_commute : Commute Bloom.insert := by
  intro b p q
  simp only [Bloom.insert, setBits_eq_exec, exec, ← List.foldl_append]
  congr 1
  exact foldl_perm_of_commute setBit_commute List.perm_append_comm _

/-- a whole Count-Min update (one Lua script) -/
def cmsStep (s : CMS) (u : List Nat × Nat) : CMS := s.update u.1 u.2

theorem CMS.updRows_comm (m : List (List Nat)) (p q : List Nat) (c d : Nat) :
    CMS.updRows (CMS.updRows m p c) q d = CMS.updRows (CMS.updRows m q d) p c := by
  induction m generalizing p q with
  | nil => cases p <;> cases q <;> rfl
  | cons row m ih =>
    cases p with
    | nil => cases q <;> simp [CMS.updRows]
    | cons a p =>
      cases q with
      | nil => simp [CMS.updRows]
      | cons b q =>
        simp only [CMS.updRows, ih]
        rw [modAt_comm]
        intro x; omega

theorem cmsStep_commute : Commute cmsStep := by
  intro s a b
  simp [cmsStep, CMS.update, CMS.updRows_comm]

theorem HLL.upd_commute : Commute HLL.upd := by
  intro s a b
  simp only [HLL.upd]
  apply modAt_comm
  intro x
  omega

end Gostatix
