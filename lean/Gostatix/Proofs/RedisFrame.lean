/-
  Gostatix.Proofs.RedisFrame — store lemmas, the frame property `SupportedOn K op`
  ("`op` reads and writes only the keys in `K`"), its compositional rules for scripts, and the
  non-interference theorem for interleaved operations on disjoint key sets.
-/
import Gostatix.Model.Redis
namespace Gostatix.Redis

/-! ### store lemmas -/
namespace Store

@[simp] theorem get_eq (s : Store) (k : String) : s.get k = s k := rfl
@[simp] theorem empty_apply (k : String) : Store.empty k = none := rfl
@[simp] theorem set_self (s : Store) (k : String) (v : Val) : (s.set k v) k = some v := by
  simp [Store.set]
theorem set_ne (s : Store) {k k' : String} (v : Val) (h : k' ≠ k) : (s.set k v) k' = s k' := by
  simp [Store.set, h]
theorem set_apply (s : Store) (k k' : String) (v : Val) :
    (s.set k v) k' = if k' = k then some v else s k' := rfl
@[simp] theorem del_self (s : Store) (k : String) : (s.del k) k = none := by simp [Store.del]
theorem del_ne (s : Store) {k k' : String} (h : k' ≠ k) : (s.del k) k' = s k' := by
  simp [Store.del, h]
theorem del_apply (s : Store) (k k' : String) :
    (s.del k) k' = if k' = k then none else s k' := rfl
theorem set_set (s : Store) (k : String) (v w : Val) : (s.set k v).set k w = s.set k w := by
  funext k'; simp only [Store.set]; split <;> rfl
theorem del_set (s : Store) (k : String) (v : Val) : (s.del k).set k v = s.set k v := by
  funext k'; simp only [Store.set, Store.del]; split <;> rfl

end Store

/-! ### the frame property -/

/-- `op` neither writes a key outside `K` nor depends on one. -/
def SupportedOn {ρ : Type} (K : List String) (op : Op ρ) : Prop :=
  (∀ s k, k ∉ K → (op s).1 k = s k) ∧
  (∀ s s', (∀ k ∈ K, s k = s' k) →
    (op s).2 = (op s').2 ∧ ∀ k ∈ K, (op s).1 k = (op s').1 k)

theorem SupportedOn.mono {ρ} {K K' : List String} {op : Op ρ} (hsub : ∀ k ∈ K, k ∈ K')
    (h : SupportedOn K op) : SupportedOn K' op := by
  refine ⟨fun s k hk => h.1 s k (fun hk' => hk (hsub k hk')), ?_⟩
  intro s s' hag
  have := h.2 s s' (fun k hk => hag k (hsub k hk))
  refine ⟨this.1, fun k _ => ?_⟩
  by_cases hk : k ∈ K
  · exact this.2 k hk
  · rw [h.1 s k hk, h.1 s' k hk]; exact hag k ‹_›

/-- an operation that reads and writes a single key `k ∈ K`. -/
theorem supported_single {ρ} {K : List String} {k : String} (hk : k ∈ K) (op : Op ρ)
    (h1 : ∀ s k', k' ≠ k → (op s).1 k' = s k')
    (h2 : ∀ s s', s k = s' k → (op s).2 = (op s').2 ∧ (op s).1 k = (op s').1 k) :
    SupportedOn K op := by
  refine ⟨fun s k' hk' => h1 s k' (fun e => hk' (e ▸ hk)), ?_⟩
  intro s s' hag
  have := h2 s s' (hag k hk)
  refine ⟨this.1, fun k' hk' => ?_⟩
  by_cases e : k' = k
  · subst e; exact this.2
  · rw [h1 s k' e, h1 s' k' e]; exact hag k' hk'

theorem supported_pure {α} (K : List String) (a : α) : SupportedOn K (Script.pure a) :=
  ⟨fun _ _ _ => rfl, fun _ _ h => ⟨rfl, h⟩⟩

theorem supported_fail {α} (K : List String) : SupportedOn K (Script.fail : Script α) :=
  ⟨fun _ _ _ => rfl, fun _ _ h => ⟨rfl, h⟩⟩

theorem Script.bind_apply {α β} (m : Script α) (f : α → Script β) (s : Store) :
    (m >>=ₛ f) s = match (m s).2 with
      | some a => f a (m s).1
      | none => ((m s).1, none) := by
  unfold Script.bind
  rcases m s with ⟨s', _ | a⟩ <;> rfl

theorem supported_bind {α β} {K : List String} {m : Script α} {f : α → Script β}
    (hm : SupportedOn K m) (hf : ∀ a, SupportedOn K (f a)) : SupportedOn K (m >>=ₛ f) := by
  constructor
  · intro s k hk
    rw [Script.bind_apply]
    cases h : (m s).2 with
    | none => exact hm.1 s k hk
    | some a => simp only; rw [(hf a).1 _ k hk]; exact hm.1 s k hk
  · intro s s' hag
    rw [Script.bind_apply, Script.bind_apply]
    obtain ⟨hr, hs⟩ := hm.2 s s' hag
    rw [← hr]
    cases h : (m s).2 with
    | none => exact ⟨rfl, hs⟩
    | some a => exact (hf a).2 _ _ hs

theorem supported_try {α} {K : List String} {m : Script α} (hm : SupportedOn K m) :
    SupportedOn K (Script.try_ m) := by
  constructor
  · intro s k hk; exact hm.1 s k hk
  · intro s s' hag
    obtain ⟨hr, hs⟩ := hm.2 s s' hag
    exact ⟨by simp only [Script.try_]; rw [hr], hs⟩

theorem supported_ite {α} {K : List String} (c : Prop) [Decidable c] {m m' : Script α}
    (hm : SupportedOn K m) (hm' : SupportedOn K m') : SupportedOn K (if c then m else m') := by
  split <;> assumption

/-! ### every command is supported on (any set containing) its key -/

section commands
variable {K : List String} {k : String}

theorem supported_DEL (hk : k ∈ K) : SupportedOn K (cmdDEL k) :=
  supported_single hk _ (fun s k' h => Store.del_ne s h)
    (fun s s' _ => ⟨rfl, by simp [cmdDEL]⟩)

theorem supported_LINDEX (hk : k ∈ K) (i : Nat) : SupportedOn K (cmdLINDEX k i) := by
  apply supported_single hk
  · intro s k' _; unfold cmdLINDEX; split <;> rfl
  · intro s s' h; unfold cmdLINDEX; rw [h]; split <;> exact ⟨rfl, h⟩

theorem supported_LRANGE (hk : k ∈ K) : SupportedOn K (cmdLRANGE k) := by
  apply supported_single hk
  · intro s k' _; unfold cmdLRANGE; split <;> rfl
  · intro s s' h; unfold cmdLRANGE; rw [h]; split <;> exact ⟨rfl, h⟩

theorem supported_HGETALL (hk : k ∈ K) : SupportedOn K (cmdHGETALL k) := by
  apply supported_single hk
  · intro s k' _; unfold cmdHGETALL; split <;> rfl
  · intro s s' h; unfold cmdHGETALL; rw [h]; split <;> exact ⟨rfl, h⟩

theorem supported_GETBIT (hk : k ∈ K) (n : Nat) : SupportedOn K (cmdGETBIT k n) := by
  apply supported_single hk
  · intro s k' _; unfold cmdGETBIT; split <;> rfl
  · intro s s' h; unfold cmdGETBIT; rw [h]; split <;> exact ⟨rfl, h⟩

theorem supported_LSET (hk : k ∈ K) (i : Nat) (v : String) : SupportedOn K (cmdLSET k i v) := by
  apply supported_single hk
  · intro s k' hne; unfold cmdLSET
    split
    · split
      · exact Store.set_ne s _ hne
      · rfl
    · rfl
  · intro s s' h; unfold cmdLSET; rw [h]
    split
    · split
      · exact ⟨rfl, by simp⟩
      · exact ⟨rfl, h⟩
    · exact ⟨rfl, h⟩

theorem supported_RPUSH (hk : k ∈ K) (vs : List String) : SupportedOn K (cmdRPUSH k vs) := by
  apply supported_single hk
  · intro s k' hne; unfold cmdRPUSH
    split
    · rfl
    · split
      · exact Store.set_ne s _ hne
      · exact Store.set_ne s _ hne
      · rfl
  · intro s s' h; unfold cmdRPUSH; rw [h]
    split
    · exact ⟨rfl, h⟩
    · split
      · exact ⟨rfl, by simp⟩
      · exact ⟨rfl, by simp⟩
      · exact ⟨rfl, h⟩

theorem supported_LPUSH (hk : k ∈ K) (vs : List String) : SupportedOn K (cmdLPUSH k vs) := by
  apply supported_single hk
  · intro s k' hne; unfold cmdLPUSH
    split
    · rfl
    · split
      · exact Store.set_ne s _ hne
      · exact Store.set_ne s _ hne
      · rfl
  · intro s s' h; unfold cmdLPUSH; rw [h]
    split
    · exact ⟨rfl, h⟩
    · split
      · exact ⟨rfl, by simp⟩
      · exact ⟨rfl, by simp⟩
      · exact ⟨rfl, h⟩

theorem supported_HSET (hk : k ∈ K) (fvs : List (String × String)) :
    SupportedOn K (cmdHSET k fvs) := by
  apply supported_single hk
  · intro s k' hne; unfold cmdHSET
    split
    · exact Store.set_ne s _ hne
    · exact Store.set_ne s _ hne
    · rfl
  · intro s s' h; unfold cmdHSET; rw [h]
    split
    · exact ⟨rfl, by simp⟩
    · exact ⟨rfl, by simp⟩
    · exact ⟨rfl, h⟩

theorem supported_SET (hk : k ∈ K) (b : List UInt8) : SupportedOn K (cmdSET k b) :=
  supported_single hk _ (fun s k' h => Store.set_ne s _ h)
    (fun s s' _ => ⟨rfl, by simp [cmdSET]⟩)

theorem supported_SETBIT (hk : k ∈ K) (n : Nat) : SupportedOn K (cmdSETBIT k n) := by
  apply supported_single hk
  · intro s k' hne; unfold cmdSETBIT
    split
    · exact Store.set_ne s _ hne
    · exact Store.set_ne s _ hne
    · rfl
  · intro s s' h; unfold cmdSETBIT; rw [h]
    split
    · exact ⟨rfl, by simp⟩
    · exact ⟨rfl, by simp⟩
    · exact ⟨rfl, h⟩

theorem supported_luaNumber (K : List String) (v : Option String) : SupportedOn K (luaNumber v) := by
  constructor
  · intro s k _; unfold luaNumber; split
    · split <;> rfl
    · rfl
  · intro s s' h; unfold luaNumber; split
    · split <;> exact ⟨rfl, h⟩
    · exact ⟨rfl, h⟩

end commands

/-! ### running interleaved operations -/

section run
variable {ι : Type} [DecidableEq ι] {ρ : Type}

/-- run a list of operations in order, collecting the results. -/
def runOps : List (Op ρ) → Store → Store × List ρ
  | [], s => (s, [])
  | op :: ops, s => ((runOps ops (op s).1).1, (op s).2 :: (runOps ops (op s).1).2)

/-- run a list of operations tagged with the structure they belong to. -/
def runTagged : List (ι × Op ρ) → Store → Store × List (ι × ρ)
  | [], s => (s, [])
  | (i, op) :: ops, s => ((runTagged ops (op s).1).1, (i, (op s).2) :: (runTagged ops (op s).1).2)

/-- the operations of structure `i`, in order. -/
def opsOf (i : ι) (tr : List (ι × Op ρ)) : List (Op ρ) := (tr.filter (fun p => p.1 = i)).map (·.2)

/-- the results obtained by structure `i`, in order. -/
def resultsOf (i : ι) (rs : List (ι × ρ)) : List ρ := (rs.filter (fun p => p.1 = i)).map (·.2)

theorem opsOf_cons_eq (i : ι) (op : Op ρ) (tr : List (ι × Op ρ)) :
    opsOf i ((i, op) :: tr) = op :: opsOf i tr := by
  simp [opsOf]

theorem opsOf_cons_ne {i j : ι} (h : j ≠ i) (op : Op ρ) (tr : List (ι × Op ρ)) :
    opsOf i ((j, op) :: tr) = opsOf i tr := by
  simp [opsOf, h]

theorem resultsOf_cons_eq (i : ι) (r : ρ) (rs : List (ι × ρ)) :
    resultsOf i ((i, r) :: rs) = r :: resultsOf i rs := by
  simp [resultsOf]

theorem resultsOf_cons_ne {i j : ι} (h : j ≠ i) (r : ρ) (rs : List (ι × ρ)) :
    resultsOf i ((j, r) :: rs) = resultsOf i rs := by
  simp [resultsOf, h]

theorem noninterference_aux (K : ι → List String)
    (hdisj : ∀ i j, i ≠ j → ∀ k ∈ K i, k ∉ K j)
    (tr : List (ι × Op ρ)) (hsup : ∀ p ∈ tr, SupportedOn (K p.1) p.2) (i : ι)
    (s s' : Store) (hag : ∀ k ∈ K i, s k = s' k) :
    resultsOf i (runTagged tr s).2 = (runOps (opsOf i tr) s').2 ∧
    ∀ k ∈ K i, (runTagged tr s).1 k = (runOps (opsOf i tr) s').1 k := by
  induction tr generalizing s s' with
  | nil => exact ⟨rfl, hag⟩
  | cons p tr ih =>
    obtain ⟨j, op⟩ := p
    have hop : SupportedOn (K j) op := hsup (j, op) List.mem_cons_self
    have htl : ∀ p ∈ tr, SupportedOn (K p.1) p.2 := fun p hp => hsup p (List.mem_cons_of_mem _ hp)
    by_cases e : j = i
    · subst e
      obtain ⟨hr, hs⟩ := hop.2 s s' hag
      obtain ⟨ih1, ih2⟩ := ih htl (op s).1 (op s').1 hs
      simp only [runTagged, opsOf_cons_eq, resultsOf_cons_eq, runOps]
      exact ⟨by rw [ih1, hr], ih2⟩
    · have hag' : ∀ k ∈ K i, (op s).1 k = s' k := by
        intro k hk
        rw [hop.1 s k (fun hkj => hdisj i j (Ne.symm e) k hk hkj)]
        exact hag k hk
      obtain ⟨ih1, ih2⟩ := ih htl (op s).1 s' hag'
      simp only [runTagged, opsOf_cons_ne e, resultsOf_cons_ne e]
      exact ⟨ih1, ih2⟩

/-- `tr` is an interleaving of `l₁` (tagged `true`) and `l₂` (tagged `false`). -/
inductive Interleaving {α : Type} : List α → List α → List (Bool × α) → Prop where
  | nil : Interleaving [] [] []
  | left {a l₁ l₂ tr} : Interleaving l₁ l₂ tr → Interleaving (a :: l₁) l₂ ((true, a) :: tr)
  | right {a l₁ l₂ tr} : Interleaving l₁ l₂ tr → Interleaving l₁ (a :: l₂) ((false, a) :: tr)

theorem Interleaving.opsOf {l₁ l₂ : List (Op ρ)} {tr : List (Bool × Op ρ)}
    (h : Interleaving l₁ l₂ tr) : opsOf true tr = l₁ ∧ opsOf false tr = l₂ := by
  induction h with
  | nil => exact ⟨rfl, rfl⟩
  | left _ ih =>
    rw [opsOf_cons_eq, opsOf_cons_ne (by decide), ih.1, ih.2]; exact ⟨rfl, rfl⟩
  | right _ ih =>
    rw [opsOf_cons_eq, opsOf_cons_ne (by decide), ih.1, ih.2]; exact ⟨rfl, rfl⟩

theorem Interleaving.mem {α} {l₁ l₂ : List α} {tr : List (Bool × α)} (h : Interleaving l₁ l₂ tr) :
    ∀ p ∈ tr, (p.1 = true → p.2 ∈ l₁) ∧ (p.1 = false → p.2 ∈ l₂) := by
  induction h with
  | nil => intro p hp; cases hp
  | left _ ih =>
    intro p hp
    rcases List.mem_cons.mp hp with rfl | hp
    · exact ⟨fun _ => List.mem_cons_self, fun h => (by cases h)⟩
    · exact ⟨fun h => List.mem_cons_of_mem _ ((ih p hp).1 h), (ih p hp).2⟩
  | right _ ih =>
    intro p hp
    rcases List.mem_cons.mp hp with rfl | hp
    · exact ⟨fun h => (by cases h), fun _ => List.mem_cons_self⟩
    · exact ⟨(ih p hp).1, fun h => List.mem_cons_of_mem _ ((ih p hp).2 h)⟩

end run

end Gostatix.Redis
