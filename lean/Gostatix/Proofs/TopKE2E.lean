/-
  Gostatix.Proofs.TopKE2E — the event history of a run of `TopK.insert` from a fresh sketch
  satisfies `EstOK`: the Count-Min bounds of C03 at every insert plus the monotonicity of
  `sketchEvents_mono`.  Also the Redis-variant run (sketch + sorted set) as a fold.
-/
import Gostatix.Props.C03
import Gostatix.Proofs.TopKRun
import Gostatix.Proofs.TopKRedis
namespace Gostatix.TopK

/-! ### the events of a run, field by field -/

theorem sketchEvents_length (posOf : String → List Nat) (s : CMS) (ops : List (String × Nat)) :
    (sketchEvents posOf s ops).length = ops.length := by
  induction ops generalizing s with
  | nil => rfl
  | cons o ops ih => obtain ⟨x, c⟩ := o; simp [sketchEvents, ih]

theorem sketchEvents_map_x (posOf : String → List Nat) (s : CMS) (ops : List (String × Nat)) :
    (sketchEvents posOf s ops).map (·.x) = ops.map (·.1) := by
  induction ops generalizing s with
  | nil => rfl
  | cons o ops ih => obtain ⟨x, c⟩ := o; simp [sketchEvents, ih]

theorem sketchEvents_take (posOf : String → List Nat) (s : CMS) (ops : List (String × Nat))
    (n : Nat) : (sketchEvents posOf s ops).take n = sketchEvents posOf s (ops.take n) := by
  induction ops generalizing s n with
  | nil => simp [sketchEvents]
  | cons o ops ih =>
    obtain ⟨x, c⟩ := o
    cases n with
    | zero => simp [sketchEvents]
    | succ n => simp only [sketchEvents, List.take_succ_cons, ih]

theorem sketchEvents_trueTotal (posOf : String → List Nat) (s : CMS) (ops : List (String × Nat))
    (y : String) : trueTotal (sketchEvents posOf s ops) y = CMS.trueCount ops y := by
  induction ops generalizing s with
  | nil => rfl
  | cons o ops ih =>
    obtain ⟨x, c⟩ := o
    have ih' := ih (s.update (posOf x) c)
    unfold trueTotal CMS.trueCount at *
    simp only [sketchEvents, List.filter_cons]
    by_cases e : x = y
    · subst e
      simp only [decide_true, if_true, List.map_cons, List.sum_cons, sumL_cons]
      rw [ih']
    · simp only [e, decide_false, Bool.false_eq_true, if_false]
      exact ih'

theorem sketchEvents_total (posOf : String → List Nat) (s : CMS) (ops : List (String × Nat)) :
    total (sketchEvents posOf s ops) = CMS.total ops := by
  induction ops generalizing s with
  | nil => rfl
  | cons o ops ih =>
    obtain ⟨x, c⟩ := o
    have ih' := ih (s.update (posOf x) c)
    unfold total CMS.total at *
    simp only [sketchEvents, List.map_cons, List.sum_cons, sumL_cons, ih']

/-- event `i` of the run: element and count of operation `i`, and the estimate of the element in
    the sketch after operations `0..i` -/
theorem sketchEvents_getElem (posOf : String → List Nat) (s : CMS) (ops : List (String × Nat))
    (i : Nat) (hi : i < ops.length) :
    (sketchEvents posOf s ops)[i]'(by rw [sketchEvents_length]; exact hi) =
      ⟨ops[i].1, ops[i].2, (CMS.run posOf s (ops.take (i + 1))).count (posOf ops[i].1)⟩ := by
  induction ops generalizing s i with
  | nil => simp at hi
  | cons o ops ih =>
    obtain ⟨x, c⟩ := o
    cases i with
    | zero => simp [sketchEvents, CMS.run]
    | succ i =>
      have := ih (s.update (posOf x) c) i (by simpa using hi)
      simp only [sketchEvents, List.getElem_cons_succ, this, List.take_succ_cons]
      rfl

/-- **the Count-Min sketch provides `EstOK`**: in a run from the fresh `rows × cols` sketch every
    estimate is between the element's true count so far and the stream total so far (C03), and
    the estimates of one element never decrease. -/
theorem sketchEvents_estOK (posOf : String → List Nat) (rows cols : Nat) (hrows : 1 ≤ rows)
    (hpos : CMS.PosOK posOf rows cols) (ops : List (String × Nat)) :
    EstOK (sketchEvents posOf (CMS.new rows cols) ops) := by
  apply estOK_of_bounds_mono _ _ (sketchEvents_mono posOf _ ops)
  intro i hi
  have hi' : i < ops.length := by rwa [sketchEvents_length] at hi
  rw [sketchEvents_getElem posOf _ ops i hi', sketchEvents_take, sketchEvents_trueTotal,
    sketchEvents_total]
  exact ⟨CMS.C03_lower posOf rows cols _ _ hrows hpos, CMS.C03_upper posOf rows cols _ _ hpos⟩

/-- the bounds half from ANY well-formed start sketch `s`, relative to the estimate in `s`
    (C03 general-state theorems) -/
theorem sketchEvents_bounds_general (posOf : String → List Nat) (s : CMS) (hs : CMS.WF s)
    (hrows : 1 ≤ s.rows) (hpos : CMS.PosOK posOf s.rows s.cols) (ops : List (String × Nat))
    (i : Nat) (hi : i < (sketchEvents posOf s ops).length) :
    s.count (posOf (sketchEvents posOf s ops)[i].x)
        + trueTotal ((sketchEvents posOf s ops).take (i + 1)) (sketchEvents posOf s ops)[i].x
      ≤ (sketchEvents posOf s ops)[i].f ∧
    (sketchEvents posOf s ops)[i].f
      ≤ s.count (posOf (sketchEvents posOf s ops)[i].x)
        + total ((sketchEvents posOf s ops).take (i + 1)) := by
  have hi' : i < ops.length := by rwa [sketchEvents_length] at hi
  rw [sketchEvents_getElem posOf _ ops i hi', sketchEvents_take, sketchEvents_trueTotal,
    sketchEvents_total]
  exact ⟨CMS.C03_lower_general posOf s _ _ hs hrows hpos, CMS.C03_upper_general posOf s _ _ hs hpos⟩

/-! ### the Redis variant as a run -/

/-- `TopKRedis.Insert`: sketch update, estimate, sorted-set part -/
def insertRedis (k : Nat) (st : CMS × List HElem) (x : String) (pos : List Nat) (c : Nat) :
    CMS × List HElem :=
  let sk := st.1.update pos c
  (sk, offerRedis k st.2 x (sk.count pos))

/-- a run of `insertRedis` -/
def runInsertsRedis (posOf : String → List Nat) (k : Nat) (st : CMS × List HElem)
    (ops : List (String × Nat)) : CMS × List HElem :=
  ops.foldl (fun st o => insertRedis k st o.1 (posOf o.1) o.2) st

/-- the sorted set of a run is the fold of `offerRedis` over the run's events -/
theorem runInsertsRedis_zset (posOf : String → List Nat) (k : Nat) (st : CMS × List HElem)
    (ops : List (String × Nat)) :
    (runInsertsRedis posOf k st ops).2 =
      (sketchEvents posOf st.1 ops).foldl (fun z e => offerRedis k z e.x e.f) st.2 := by
  induction ops generalizing st with
  | nil => rfl
  | cons o ops ih =>
    obtain ⟨x, c⟩ := o
    simp only [runInsertsRedis, List.foldl_cons, sketchEvents] at *
    rw [ih]
    rfl

/-- both variants keep the same sketch -/
theorem runInsertsRedis_sketch (posOf : String → List Nat) (k : Nat) (st : CMS × List HElem)
    (ops : List (String × Nat)) :
    (runInsertsRedis posOf k st ops).1 = CMS.run posOf st.1 ops := by
  induction ops generalizing st with
  | nil => rfl
  | cons o ops ih =>
    simp only [runInsertsRedis, List.foldl_cons, CMS.run] at *
    rw [ih]
    rfl

theorem runInserts_sketch (posOf : String → List Nat) (t : TopK) (ops : List (String × Nat)) :
    (runInserts posOf t ops).sketch = CMS.run posOf t.sketch ops := by
  induction ops generalizing t with
  | nil => rfl
  | cons o ops ih =>
    simp only [runInserts, List.foldl_cons, CMS.run] at *
    rw [ih]
    rfl

/-! ### a kernel-evaluable form of `offer` (for concrete examples)

`Array.findIdx?` does not reduce in the kernel; `List.findIdx?` does. -/

theorem indexOf_list (h : Array HElem) (x : String) :
    GoHeap.indexOf h x = h.toList.findIdx? (fun e => e.1 == x) := by
  unfold GoHeap.indexOf
  cases h with | mk l => exact List.findIdx?_toArray _ l

/-- `offer` with `IndexOf` computed on the list of the array -/
def offerL (k : Nat) (heap : Array HElem) (x : String) (f : Nat) : Array HElem :=
  if heap.size < k ∨ f ≥ (heap.getD 0 ("", 0)).2 then
    let heap := match heap.toList.findIdx? (fun e => e.1 == x) with
      | some i => GoHeap.remove heap i
      | none => heap
    let heap := GoHeap.push heap (x, f)
    if heap.size > k then GoHeap.pop heap else heap
  else heap

theorem offer_eq_offerL : offer = offerL := by
  funext k heap x f
  unfold offer offerL
  rw [indexOf_list]
  rfl

end Gostatix.TopK
