/-
  `structFieldNames% T` — the field names of the Lean structure `T` (declaration order, as
  strings), read from the environment when the term is elaborated.  Used by Props/C10Table.lean
  to compare the record types of Model/Json.lean (`CuckooDoc`, `CMSDoc`, …: the Lean side of the
  Go `*JSON` mirror structs) with the JSON keys of the regenerated table: renaming, adding or
  removing a field of such a record changes the literal this elaborates to, and the comparison
  theorems stop compiling.  (This is a build-time reading of the declaration, not a kernel-level
  statement about it; the kernel only sees the resulting list literal.)
-/
import Lean
namespace Gostatix
open Lean Elab Term in
elab "structFieldNames% " id:ident : term => do
  let n ← realizeGlobalConstNoOverloadWithInfo id
  let env ← getEnv
  unless isStructure env n do throwErrorAt id "{n} is not a structure"
  let fs := getStructureFields env n
  return toExpr (fs.toList.map (fun f => f.toString))
end Gostatix
