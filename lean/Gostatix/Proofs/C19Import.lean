/-
  Gostatix.Proofs.C19Import — helper definitions and frame lemmas for Props/C19Import.lean:

  * `Op.andThen`: the Go-side sequencing of database operations (the next command sees the reply
    of the previous one), `luaOp`: an extracted script with its KEYS/ARGV as an `Op`;
  * `supported_lua…`: the extracted import/constructor scripts are `SupportedOn` every key set
    that contains the keys they are handed — obtained from the Lua tie theorems
    (Props/LuaCMS.lean, LuaHLL.lean, LuaBucket.lean), which hold for EVERY store;
  * the Go-level compositions `topkImportOp`, `cuckooInitBucketsOp`, `cuckooImportOp`,
    the store-level hand model `cmsEquals` of `compareMatrix`, and their frames;
  * key membership lemmas for cuckoo and Top-K handles, disjointness of a set of keys built on
    fresh base keys from the keys of any handle.
-/
import Gostatix.Props.C19
import Gostatix.Proofs.RedisZSet
import Gostatix.Props.LuaCMS
import Gostatix.Props.LuaHLL
import Gostatix.Props.LuaBucket
namespace Gostatix.Redis
open Gostatix.Generated.LuaScripts

/-! ### sequencing of operations, scripts as operations -/

/-- `m`, then `f r` where `r` is what `m` returned (Go: the next command is chosen after looking at
    the previous reply). -/
def Op.andThen {α β : Type} (m : Op α) (f : α → Op β) : Op β := fun s => f (m s).2 (m s).1

/-- an operation that does nothing and returns `a` (an early `return`). -/
def Op.ret {α : Type} (a : α) : Op α := fun s => (s, a)

theorem supported_ret {α : Type} (K : List String) (a : α) : SupportedOn K (Op.ret a) :=
  ⟨fun _ _ _ => rfl, fun _ _ h => ⟨rfl, h⟩⟩

theorem supported_opIte {ρ : Type} {K : List String} (c : Prop) [Decidable c] {m m' : Op ρ}
    (hm : SupportedOn K m) (hm' : SupportedOn K m') : SupportedOn K (if c then m else m') := by
  split <;> assumption

theorem supported_andThen {α β : Type} {K : List String} {m : Op α} {f : α → Op β}
    (hm : SupportedOn K m) (hf : ∀ a, SupportedOn K (f a)) : SupportedOn K (Op.andThen m f) := by
  constructor
  · intro s k hk
    show (f (m s).2 (m s).1).1 k = s k
    rw [(hf _).1 _ k hk]
    exact hm.1 s k hk
  · intro s s' hag
    obtain ⟨hr, hs⟩ := hm.2 s s' hag
    show (f (m s).2 (m s).1).2 = (f (m s').2 (m s').1).2 ∧
      ∀ k ∈ K, (f (m s).2 (m s).1).1 k = (f (m s').2 (m s').1).1 k
    rw [hr]
    exact (hf _).2 _ _ hs

/-- `EVAL script numkeys KEYS… ARGV…` as an operation on the database (interpreter of
    Model/Lua.lean on the extracted script). -/
def luaOp (fuel : Nat) (script : Lua.Block) (keys args : List String) : Op Lua.Outcome :=
  fun st => Lua.run fuel script keys args st

/-- an operation that computes, on every store, what a supported model computes (result mapped by
    `g`) is supported on the same keys. -/
theorem supported_of_model {α ρ : Type} {K : List String} {op : Op ρ} {m : Op α} (g : α → ρ)
    (h : ∀ s, op s = ((m s).1, g (m s).2)) (hm : SupportedOn K m) : SupportedOn K op := by
  have e : op = fun s => ((m s).1, g (m s).2) := funext h
  rw [e]
  exact supported_mapResult g hm

/-- the Go side of `script.Run(…).Bool()` / `.Result()` for a script ending in `return true`:
    no error exactly for an integer reply. -/
def replyOk : Lua.Outcome → Bool
  | .reply (.int _) => true
  | _ => false

/-! ### Count-Min: `setMatrix` (closed form `setRowsLoop` of the Lua tie), `initMatrix` -/

theorem setRowsLoop_frame (key : String) (cols : Nat) (args : List String) :
    ∀ (n r : Nat) (st : Store) (k : String), (∀ j, r ≤ j → j < r + n → k ≠ cmsRowKey key j) →
      LuaCMS.setRowsLoop key cols args r n st k = st k := by
  intro n
  induction n with
  | zero => intro r st k _; rfl
  | succ n ih =>
    intro r st k hk
    have hr : k ≠ cmsRowKey key r := hk r (Nat.le_refl _) (by omega)
    rw [LuaCMS.setRowsLoop, ih (r + 1) _ k (fun j h1 h2 => hk j (by omega) (by omega)),
      Store.set_ne _ _ hr, Store.del_ne _ hr]

/-- the value `setMatrix` leaves at a key depends on the old value at THAT key only. -/
theorem setRowsLoop_congr (key : String) (cols : Nat) (args : List String) :
    ∀ (n r : Nat) (s s' : Store) (k : String), s k = s' k →
      LuaCMS.setRowsLoop key cols args r n s k = LuaCMS.setRowsLoop key cols args r n s' k := by
  intro n
  induction n with
  | zero => intro r s s' k h; exact h
  | succ n ih =>
    intro r s s' k h
    rw [LuaCMS.setRowsLoop, LuaCMS.setRowsLoop]
    apply ih
    simp only [Store.set_apply, Store.del_apply, h]

theorem supported_setRows {ρ : Type} (K : List String) (key : String) (cols : Nat) (args : List String)
    (r n : Nat) (c : ρ) (hK : ∀ j, r ≤ j → j < r + n → cmsRowKey key j ∈ K) :
    SupportedOn K (fun st => (LuaCMS.setRowsLoop key cols args r n st, c) : Op ρ) := by
  refine ⟨fun s k hk => ?_, fun s s' hag => ⟨rfl, fun k hk => ?_⟩⟩
  · exact setRowsLoop_frame key cols args n r s k (fun j h1 h2 e => hk (e ▸ hK j h1 h2))
  · exact setRowsLoop_congr key cols args n r s s' k (hag k hk)

/-- the extracted `setMatrixScript` on KEYS = `[key]`, ARGV = `columns, cell, cell, …`
    (`iters` whole rows) reads and writes the row keys `key0 … key(iters-1)` only. -/
theorem supported_luaSetMatrix (K : List String) (key : String) (cols iters : Nat) (cells : List String)
    (fuel : Nat) (hfuel : iters + cols + 60 ≤ fuel) (hcols : 1 ≤ cols) (hcols' : cols ≤ Lua.unpackSafe)
    (hcells : cells.length = iters * cols) (hn : 2 + cells.length < Lua.maxArrayIndex)
    (hK : ∀ r, r < iters → cmsRowKey key r ∈ K) :
    SupportedOn K (luaOp fuel count_min_sketch_redis_setMatrixScript [key] (decimal cols :: cells)) := by
  have e : luaOp fuel count_min_sketch_redis_setMatrixScript [key] (decimal cols :: cells) =
      fun st => (LuaCMS.setRowsLoop key cols (decimal cols :: cells) 0 iters st, Lua.Outcome.reply (.int 1)) :=
    funext fun st => LuaCMS.lua_setMatrixScript_store st key cols iters cells fuel hfuel hcols hcols' hcells hn
  rw [e]
  exact supported_setRows K key cols _ 0 iters _ (fun j _ hj => hK j (by omega))

/-- the extracted `initMatrixRedis` (constructor) for `columns ≥ 1`: it is `cmsInit`, which cannot
    fail then, so the reply is `1` on every store. -/
theorem lua_initMatrix_run (st : Store) (h : CMSHandle) (fuel : Nat) (hfuel : h.rows + h.cols + 45 ≤ fuel)
    (hpos : 0 < h.cols) (hcols : h.cols ≤ Lua.unpackSafe) (hrows : h.rows ≤ Lua.numLimit) :
    Lua.run fuel count_min_sketch_redis_initMatrixRedis [h.key] [decimal h.rows, decimal h.cols] st =
      ((cmsInit h st).1, .reply (.int 1)) := by
  obtain ⟨msg, hrun⟩ := LuaCMS.lua_count_min_sketch_redis_initMatrixRedis_eq st h fuel hfuel hcols hrows
  obtain ⟨st', hm, _⟩ := C08_cms_init h st hpos
  rw [hrun, hm]

theorem supported_luaInitMatrix (K : List String) (h : CMSHandle) (fuel : Nat)
    (hfuel : h.rows + h.cols + 45 ≤ fuel) (hpos : 0 < h.cols) (hcols : h.cols ≤ Lua.unpackSafe)
    (hrows : h.rows ≤ Lua.numLimit) (hK : ∀ r, r < h.rows → cmsRowKey h.key r ∈ K) :
    SupportedOn K (luaOp fuel count_min_sketch_redis_initMatrixRedis [h.key]
      [decimal h.rows, decimal h.cols]) := by
  refine supported_of_model (m := cmsInit h) (fun _ => Lua.Outcome.reply (.int 1))
    (fun s => lua_initMatrix_run s h fuel hfuel hpos hcols hrows) ?_
  exact supported_cmsInitLoop _ _ _ _ _ (fun j _ hj => hK j (by omega))

/-! ### HyperLogLog: `importRegistersScript` = `RPUSH key r₁ … rₙ` -/

theorem supported_luaImportRegisters (K : List String) (key : String) (hk : key ∈ K) (regs : List Nat)
    (fuel : Nat) (hfuel : regs.length + 18 ≤ fuel) (hn : regs.length ≤ 4800)
    (hr : ∀ r ∈ regs, r ≤ 2 ^ 53) :
    SupportedOn K (luaOp fuel hyperloglog_redis_importRegistersScript [key] (regs.map decimal)) :=
  supported_of_model (m := cmdRPUSH key (regs.map decimal))
    (fun r => LuaHLL.unitOutcome r (LuaHLL.importError regs))
    (fun s => LuaHLL.lua_importRegisters_eq s key regs fuel hfuel hn hr) (supported_RPUSH hk _)

/-! ### Top-K: `importHeapScript` = the `ZADD`s in order -/

theorem supported_zaddAll (K : List String) (key : String) (hk : key ∈ K) (ps : List (String × Nat)) :
    SupportedOn K (LuaHLL.zaddAll key ps) := by
  induction ps with
  | nil => exact supported_pure K ()
  | cons p ps ih =>
    obtain ⟨x, f⟩ := p
    exact supported_bind (supported_ZADD hk x f) fun _ => ih

theorem supported_luaImportHeap (K : List String) (key : String) (hk : key ∈ K) (ps : List (String × Nat))
    (fuel : Nat) (hfuel : ps.length + 15 ≤ fuel) (hlen : 2 * ps.length < 67108864)
    (hsc : ∀ p ∈ ps, p.2 ≤ 2 ^ 53) :
    SupportedOn K (luaOp fuel top_k_redis_importHeapScript [key] (LuaHLL.heapArgs ps)) :=
  supported_of_model (m := LuaHLL.zaddAll key ps) (fun r => LuaHLL.unitOutcome r Lua.msgWrongType)
    (fun s => LuaHLL.lua_importHeap_eq s key ps fuel hfuel hlen hsc) (supported_zaddAll K key hk ps)

/-- `TopKRedis.Import(data, withNewKey = true)` after the JSON decoding, for the NEW handle `t`
    (`k`, `errorRate`, `accuracy`, the sketch's `rows`/`columns` from the document; `heapKey`,
    `sketch.key`, `sketch.metadataKey` freshly generated; `metadataKey` kept): `ps` are the
    (element, frequency) pairs in the order the Go map iteration produced, `cols = len(matrix[0])`
    and `cells` the flattened matrix of the document's sketch.

        importHeap(heapKey, …)                      script; error → return err
        NewCountMinSketchRedis(rows, columns)       rows/columns = 0 → return err
            HSET sketch.metadataKey …               error → return err
            initMatrix()                            script, result dropped
        sketch.setMatrix(matrix)                    script, result dropped
        return nil

    The result is `true` for `return nil`. -/
def topkImportOp (fuel : Nat) (t : TopKHandle) (ps : List (String × Nat)) (cols : Nat)
    (cells : List String) : Op Bool :=
  Op.andThen (luaOp fuel top_k_redis_importHeapScript [t.heapKey] (LuaHLL.heapArgs ps)) fun o =>
  if replyOk o = false then Op.ret false else
  if t.sketch.rows = 0 ∨ t.sketch.cols = 0 then Op.ret false else
  Op.andThen (cmsCreate t.sketch) fun r =>
  if r = none then Op.ret false else
  Op.andThen (luaOp fuel count_min_sketch_redis_initMatrixRedis [t.sketch.key]
    [decimal t.sketch.rows, decimal t.sketch.cols]) fun _ =>
  Op.andThen (luaOp fuel count_min_sketch_redis_setMatrixScript [t.sketch.key] (decimal cols :: cells)) fun _ =>
  Op.ret true

theorem supported_topkImportOp (K : List String) (fuel : Nat) (t : TopKHandle) (ps : List (String × Nat))
    (cols iters : Nat) (cells : List String)
    (hheap : t.heapKey ∈ K) (hmeta : t.sketch.metadataKey ∈ K)
    (hrowsK : ∀ r, r < t.sketch.rows → cmsRowKey t.sketch.key r ∈ K)
    -- importHeap
    (hf₁ : ps.length + 15 ≤ fuel) (hlen : 2 * ps.length < 67108864) (hsc : ∀ p ∈ ps, p.2 ≤ 2 ^ 53)
    -- initMatrix
    (hf₂ : t.sketch.rows + t.sketch.cols + 45 ≤ fuel) (hc₂ : t.sketch.cols ≤ Lua.unpackSafe)
    (hr₂ : t.sketch.rows ≤ Lua.numLimit)
    -- setMatrix
    (hf₃ : iters + cols + 60 ≤ fuel) (hcols : 1 ≤ cols) (hcols' : cols ≤ Lua.unpackSafe)
    (hcells : cells.length = iters * cols) (hn : 2 + cells.length < Lua.maxArrayIndex)
    (hiters : iters ≤ t.sketch.rows) :
    SupportedOn K (topkImportOp fuel t ps cols cells) := by
  unfold topkImportOp
  refine supported_andThen (supported_luaImportHeap K _ hheap ps fuel hf₁ hlen hsc) fun o => ?_
  refine supported_opIte _ (supported_ret K _) ?_
  by_cases hz : t.sketch.rows = 0 ∨ t.sketch.cols = 0
  · rw [if_pos hz]; exact supported_ret K _
  · rw [if_neg hz]
    refine supported_andThen (supported_HSET hmeta _) fun r => ?_
    refine supported_opIte _ (supported_ret K _) ?_
    refine supported_andThen
      (supported_luaInitMatrix K t.sketch fuel hf₂ (by omega) hc₂ hr₂ hrowsK) fun _ => ?_
    refine supported_andThen
      (supported_luaSetMatrix K _ cols iters cells fuel hf₃ hcols hcols' hcells hn
        (fun r hr => hrowsK r (by omega))) fun _ => ?_
    exact supported_ret K _

/-! ### cuckoo filter: init script, `newBucketRedis`, the per-bucket commands of `Import` -/

theorem supported_cuckooInitLoop (K : List String) (key : String) (hk : key ∈ K) (bks : List String) :
    SupportedOn K (LuaBucket.cuckooInitLoop key bks) := by
  induction bks with
  | nil => exact supported_pure K ()
  | cons bk bks ih =>
    unfold LuaBucket.cuckooInitLoop
    exact supported_bind (supported_LPUSH hk _) fun _ => ih

theorem supported_cuckooInitScript (K : List String) (key : String) (hk : key ∈ K) (bks : List String) :
    SupportedOn K (LuaBucket.cuckooInitScript key bks) :=
  supported_bind (supported_DEL hk) fun _ =>
    supported_bind (supported_cuckooInitLoop K key hk bks) fun _ => supported_pure K true

/-- the extracted `initCuckooFilterRedis` on KEYS = `key :: bucketKeys`: it reads and writes
    `key` only (the bucket keys are VALUES pushed onto the list at `key`). -/
theorem supported_luaInitCuckoo (K : List String) (key : String) (hk : key ∈ K) (bks : List String)
    (bsize fuel : Nat) (hfuel : bks.length + 15 ≤ fuel) (hlen : bks.length + 1 < 67108864) :
    SupportedOn K (luaOp fuel cuckoo_filter_redis_initCuckooFilterRedis (key :: bks)
      [decimal bks.length, decimal bsize]) :=
  supported_of_model (m := LuaBucket.cuckooInitScript key bks) (fun r => LuaBucket.boolOutcome "" r)
    (fun s => LuaBucket.lua_initCuckooFilterRedis_eq s key bks bsize fuel hfuel hlen)
    (supported_cuckooInitScript K key hk bks)

/-- `for i := range bucketKeys { filter.buckets[bucketKey] = newBucketRedis(bucketKey, …) }`:
    `INCRBY bucketKey_len 0` per bucket, errors dropped. -/
def bucketNewAll : List String → Script Unit
  | [] => Script.pure ()
  | bk :: bks => bucketNew bk >>=ₛ fun _ => bucketNewAll bks

theorem supported_bucketNew' (K : List String) (bk : String) (hk : bucketLenKey bk ∈ K) :
    SupportedOn K (bucketNew bk) :=
  supported_bind (supported_try (supported_INCRBY hk 0)) fun _ => supported_pure _ _

theorem supported_bucketNewAll (K : List String) (bks : List String)
    (hK : ∀ bk ∈ bks, bucketLenKey bk ∈ K) : SupportedOn K (bucketNewAll bks) := by
  induction bks with
  | nil => exact supported_pure K ()
  | cons bk bks ih =>
    unfold bucketNewAll
    exact supported_bind (supported_bucketNew' K bk (hK bk List.mem_cons_self)) fun _ =>
      ih (fun b hb => hK b (List.mem_cons_of_mem _ hb))

/-- the bucket keys `initBuckets`/`localInitBuckets` build. -/
def cuckooBucketKeys (h : CuckooHandle) : List String := (List.range h.n).map (cuckooBucketKey h.key)

/-- `CuckooFilterRedis.initBuckets()`: the script (extracted), and — unless it failed — one
    `newBucketRedis` per bucket key.  `true` = `return nil`. -/
def cuckooInitBucketsOp (fuel : Nat) (h : CuckooHandle) : Op Bool :=
  Op.andThen (luaOp fuel cuckoo_filter_redis_initCuckooFilterRedis (h.key :: cuckooBucketKeys h)
    [decimal h.n, decimal h.bsize]) fun o =>
  if replyOk o = false then Op.ret false else
  Op.andThen (bucketNewAll (cuckooBucketKeys h)) fun _ => Op.ret true

/-- the same with the hand model of the script (`LuaBucket.cuckooInitScript`). -/
def cuckooInitBuckets (h : CuckooHandle) : Script Unit :=
  LuaBucket.cuckooInitScript h.key (cuckooBucketKeys h) >>=ₛ fun _ => bucketNewAll (cuckooBucketKeys h)

/-- `RPUSH bucketKey element` for every element of the document's bucket, errors dropped. -/
def rpushEach (bk : String) : List String → Script Unit
  | [] => Script.pure ()
  | e :: es => Script.try_ (cmdRPUSH bk [e]) >>=ₛ fun _ => rpushEach bk es

/-- the body of `Import`'s loop for one bucket of the document:
    `newBucketRedis(bucketKey, …)`; `RPUSH` per element; `INCRBY bucketKey_len length` where
    `length` counts the non-empty elements. -/
def cuckooImportBucket (bk : String) (elems : List String) : Script Unit :=
  bucketNew bk >>=ₛ fun _ =>
  rpushEach bk elems >>=ₛ fun _ =>
  Script.try_ (cmdINCRBY (bucketLenKey bk) ((elems.filter (· ≠ "")).length : Int)) >>=ₛ fun _ =>
  Script.pure ()

/-- `for i := range f.Buckets`, bucket `i` under `getIndexKey(i)`. -/
def cuckooImportBuckets (key : String) : Nat → List (List String) → Script Unit
  | _, [] => Script.pure ()
  | i, b :: bs =>
    cuckooImportBucket (cuckooBucketKey key i) b >>=ₛ fun _ => cuckooImportBuckets key (i + 1) bs

theorem supported_rpushEach (K : List String) (bk : String) (hk : bk ∈ K) (es : List String) :
    SupportedOn K (rpushEach bk es) := by
  induction es with
  | nil => exact supported_pure K ()
  | cons e es ih =>
    unfold rpushEach
    exact supported_bind (supported_try (supported_RPUSH hk _)) fun _ => ih

theorem supported_cuckooImportBucket (K : List String) (bk : String) (hk : bk ∈ K)
    (hl : bucketLenKey bk ∈ K) (es : List String) : SupportedOn K (cuckooImportBucket bk es) :=
  supported_bind (supported_bucketNew' K bk hl) fun _ =>
    supported_bind (supported_rpushEach K bk hk es) fun _ =>
      supported_bind (supported_try (supported_INCRBY hl _)) fun _ => supported_pure _ _

theorem supported_cuckooImportBuckets (K : List String) (key : String) (i : Nat) (bs : List (List String))
    (hK : ∀ j, i ≤ j → j < i + bs.length → cuckooBucketKey key j ∈ K ∧ cuckooLenKey key j ∈ K) :
    SupportedOn K (cuckooImportBuckets key i bs) := by
  induction bs generalizing i with
  | nil => exact supported_pure K ()
  | cons b bs ih =>
    unfold cuckooImportBuckets
    have := hK i (Nat.le_refl _) (by simp)
    refine supported_bind (supported_cuckooImportBucket K _ this.1 this.2 b) fun _ => ?_
    exact ih (i + 1) (fun j h1 h2 => hK j (by omega) (by simp at h2 ⊢; omega))

/-- `CuckooFilterRedis.Import(data, withNewRedisKey = true)` after the JSON decoding, for the NEW
    handle `h` (parameters from the document, `key` and `metadataKey` freshly generated):

        setMetadata(f.Length)      HSET metadataKey …, result dropped
        initBuckets()              script + newBucketRedis per bucket key, result dropped
        for i := range f.Buckets   newBucketRedis; RPUSH per element; INCRBY _len

    `buckets` are the element lists of the document's buckets, in order. -/
def cuckooImportOp (fuel : Nat) (h : CuckooHandle) (length : Nat) (buckets : List (List String)) : Op Unit :=
  Op.andThen (cuckooSetMetadata h length) fun _ =>
  Op.andThen (cuckooInitBucketsOp fuel h) fun _ =>
  Op.andThen (cuckooImportBuckets h.key 0 buckets) fun _ => Op.ret ()

theorem cuckooBucketKeys_length (h : CuckooHandle) : (cuckooBucketKeys h).length = h.n := by
  simp [cuckooBucketKeys]

theorem supported_cuckooInitBucketsOp (K : List String) (fuel : Nat) (h : CuckooHandle)
    (hkey : h.key ∈ K) (hlenK : ∀ i, i < h.n → cuckooLenKey h.key i ∈ K)
    (hfuel : h.n + 15 ≤ fuel) (hn : h.n + 1 < 67108864) :
    SupportedOn K (cuckooInitBucketsOp fuel h) := by
  unfold cuckooInitBucketsOp
  have hl := cuckooBucketKeys_length h
  have hs := supported_luaInitCuckoo K h.key hkey (cuckooBucketKeys h) h.bsize fuel
    (by rw [hl]; exact hfuel) (by rw [hl]; exact hn)
  rw [hl] at hs
  refine supported_andThen hs fun o => ?_
  refine supported_opIte _ (supported_ret K _) ?_
  refine supported_andThen (supported_bucketNewAll K _ ?_) fun _ => supported_ret K _
  intro bk hbk
  obtain ⟨i, hi, rfl⟩ := List.mem_map.mp hbk
  exact hlenK i (List.mem_range.mp hi)

theorem supported_cuckooInitBuckets (K : List String) (h : CuckooHandle)
    (hkey : h.key ∈ K) (hlenK : ∀ i, i < h.n → cuckooLenKey h.key i ∈ K) :
    SupportedOn K (cuckooInitBuckets h) := by
  refine supported_bind (supported_cuckooInitScript K h.key hkey _) fun _ => ?_
  refine supported_bucketNewAll K _ ?_
  intro bk hbk
  obtain ⟨i, hi, rfl⟩ := List.mem_map.mp hbk
  exact hlenK i (List.mem_range.mp hi)

theorem supported_cuckooImportOp (K : List String) (fuel : Nat) (h : CuckooHandle) (length : Nat)
    (buckets : List (List String))
    (hkey : h.key ∈ K) (hmeta : h.metadataKey ∈ K)
    (hbK : ∀ i, i < h.n → cuckooBucketKey h.key i ∈ K ∧ cuckooLenKey h.key i ∈ K)
    (hfuel : h.n + 15 ≤ fuel) (hn : h.n + 1 < 67108864) (hb : buckets.length ≤ h.n) :
    SupportedOn K (cuckooImportOp fuel h length buckets) := by
  unfold cuckooImportOp
  refine supported_andThen (supported_HSET hmeta _) fun _ => ?_
  refine supported_andThen
    (supported_cuckooInitBucketsOp K fuel h hkey (fun i hi => (hbK i hi).2) hfuel hn) fun _ => ?_
  refine supported_andThen (supported_cuckooImportBuckets K h.key 0 buckets ?_) fun _ => supported_ret K _
  intro j _ hj
  exact hbK j (by omega)

/-! ### key membership -/

theorem CuckooHandle.key_mem (h : CuckooHandle) : h.key ∈ h.keysOf := by
  unfold CuckooHandle.keysOf CuckooHandle.descr
  exact List.mem_map.mpr ⟨KeyD.base h.key, by simp, rfl⟩

theorem CuckooHandle.metadataKey_mem (h : CuckooHandle) : h.metadataKey ∈ h.keysOf := by
  unfold CuckooHandle.keysOf CuckooHandle.descr
  exact List.mem_map.mpr ⟨KeyD.base h.metadataKey, by simp, rfl⟩

theorem CuckooHandle.bucketKey_memI (h : CuckooHandle) {i : Nat} (hi : i < h.n) :
    cuckooBucketKey h.key i ∈ h.keysOf := by
  unfold CuckooHandle.keysOf CuckooHandle.descr
  refine List.mem_map.mpr ⟨KeyD.bucket h.key i, ?_, rfl⟩
  exact List.mem_append_right _ (List.mem_append_left _
    (List.mem_map.mpr ⟨i, List.mem_range.mpr hi, rfl⟩))

theorem CuckooHandle.lenKey_memI (h : CuckooHandle) {i : Nat} (hi : i < h.n) :
    cuckooLenKey h.key i ∈ h.keysOf := by
  unfold CuckooHandle.keysOf CuckooHandle.descr
  refine List.mem_map.mpr ⟨KeyD.blen h.key i, ?_, rfl⟩
  exact List.mem_append_right _ (List.mem_append_right _
    (List.mem_map.mpr ⟨i, List.mem_range.mpr hi, rfl⟩))

theorem TopKHandle.heapKey_mem (t : TopKHandle) : t.heapKey ∈ t.keysOf := by
  unfold TopKHandle.keysOf TopKHandle.descr
  exact List.mem_map.mpr ⟨KeyD.base t.heapKey, by simp, rfl⟩

theorem TopKHandle.metadataKey_mem (t : TopKHandle) : t.metadataKey ∈ t.keysOf := by
  unfold TopKHandle.keysOf TopKHandle.descr
  exact List.mem_map.mpr ⟨KeyD.base t.metadataKey, by simp, rfl⟩

theorem TopKHandle.sketch_mem (t : TopKHandle) {k : String} (hk : k ∈ t.sketch.keysOf) : k ∈ t.keysOf := by
  unfold TopKHandle.keysOf TopKHandle.descr
  obtain ⟨d, hd, rfl⟩ := List.mem_map.mp hk
  exact List.mem_map.mpr ⟨d, List.mem_append_right _ hd, rfl⟩

/-! ### keys built on fresh base keys -/

/-- keys whose base keys are 16-letter strings that are not base keys of the handle `g` are not
    keys of `g`. -/
theorem fresh_disjoint (D : List KeyD) (g : Handle) (hg : ∀ b ∈ g.bases, IsBase b)
    (hD : ∀ d ∈ D, IsBase d.baseOf ∧ d.baseOf ∉ g.bases) :
    ∀ k ∈ g.keysOf, k ∉ D.map KeyD.render := by
  intro k hk hk'
  obtain ⟨d₂, hd₂, rfl⟩ := List.mem_map.mp hk
  obtain ⟨d₁, hd₁, e⟩ := List.mem_map.mp hk'
  have := KeyD.render_inj (hD d₁ hd₁).1 (hg _ (g.descr_base d₂ hd₂)) e
  subst this
  exact (hD d₁ hd₁).2 (g.descr_base d₁ hd₂)

/-! ### frames of further operations: `Equals` of HyperLogLog and Count-Min, constructors -/

theorem supported_hllEqualsI (h g : HLLHandle) : SupportedOn (h.keysOf ++ g.keysOf) (hllEquals h g) := by
  have hk : h.key ∈ h.keysOf ++ g.keysOf := List.mem_append_left _ h.key_mem
  have gk : g.key ∈ h.keysOf ++ g.keysOf := List.mem_append_right _ g.key_mem
  unfold hllEquals
  refine supported_ite _ (supported_pure _ _) ?_
  refine supported_bind (supported_try (supported_LRANGE hk)) fun _ => ?_
  refine supported_bind (supported_try (supported_LRANGE gk)) fun _ => ?_
  exact supported_pure _ _

/-- store-level hand model of `compareMatrixScript` (count_min_sketch_redis.go), rows
    `r … r + n - 1`: both rows are fetched with `redis.pcall('LRANGE', …)` (an error table has no
    entries, as in `hllEquals`), then `vals1[j] ~= vals2[j]` for `j = 1 … columns` compares the
    entries AS STRINGS, a missing entry being `nil` (`Equals.luaIdxEq`). -/
def cmsCompareLoop (key1 key2 : String) (cols : Nat) : Nat → Nat → Script Bool
  | _, 0 => Script.pure true
  | r, n + 1 =>
    Script.try_ (cmdLRANGE (cmsRowKey key1 r)) >>=ₛ fun v1 =>
    Script.try_ (cmdLRANGE (cmsRowKey key2 r)) >>=ₛ fun v2 =>
    match Equals.forN cols (Equals.luaIdxEq (v1.getD []) (v2.getD [])) with
    | some true => cmsCompareLoop key1 key2 cols (r + 1) n
    | _ => Script.pure false

/-- `CountMinSketchRedis.Equals`: `(false, nil)` for different dimensions, else the script. -/
def cmsEquals (h g : CMSHandle) : Script Bool :=
  if h.rows ≠ g.rows ∨ h.cols ≠ g.cols then Script.pure false
  else cmsCompareLoop h.key g.key h.cols 0 h.rows

theorem supported_cmsCompareLoop (K : List String) (key1 key2 : String) (cols r n : Nat)
    (hK1 : ∀ j, r ≤ j → j < r + n → cmsRowKey key1 j ∈ K)
    (hK2 : ∀ j, r ≤ j → j < r + n → cmsRowKey key2 j ∈ K) :
    SupportedOn K (cmsCompareLoop key1 key2 cols r n) := by
  induction n generalizing r with
  | zero => exact supported_pure K true
  | succ n ih =>
    have hk1 : cmsRowKey key1 r ∈ K := hK1 r (Nat.le_refl _) (by omega)
    have hk2 : cmsRowKey key2 r ∈ K := hK2 r (Nat.le_refl _) (by omega)
    unfold cmsCompareLoop
    refine supported_bind (supported_try (supported_LRANGE hk1)) fun v1 => ?_
    refine supported_bind (supported_try (supported_LRANGE hk2)) fun v2 => ?_
    split
    · exact ih (r + 1) (fun j h1 h2 => hK1 j (by omega) (by omega))
        (fun j h1 h2 => hK2 j (by omega) (by omega))
    · exact supported_pure K false

theorem supported_cmsEquals (h g : CMSHandle) : SupportedOn (h.keysOf ++ g.keysOf) (cmsEquals h g) := by
  unfold cmsEquals
  by_cases hd : h.rows ≠ g.rows ∨ h.cols ≠ g.cols
  · rw [if_pos hd]; exact supported_pure _ _
  · rw [if_neg hd]
    have hr : h.rows = g.rows := Decidable.not_not.mp (fun e => hd (Or.inl e))
    apply supported_cmsCompareLoop
    · intro j _ hj; exact List.mem_append_left _ (h.rowKey_mem (by omega))
    · intro j _ hj; exact List.mem_append_right _ (g.rowKey_mem (by omega))

theorem forFrom_luaIdxEq_ne_none' {α : Type} [DecidableEq α] (l1 l2 : List α) (k n : Nat) :
    Equals.forFrom (Equals.luaIdxEq l1 l2) k n ≠ none := by
  induction n generalizing k with
  | zero => exact fun h => nomatch h
  | succ n ih =>
    rw [Equals.forFrom]
    unfold Equals.luaIdxEq
    cases decide (l1[k]? = l2[k]?) with
    | false => exact fun h => nomatch h
    | true => exact ih (k + 1)

theorem luaIdxEq_map_decimal (l1 l2 : List Nat) :
    Equals.luaIdxEq (l1.map decimal) (l2.map decimal) = Equals.luaIdxEq l1 l2 := by
  funext i
  unfold Equals.luaIdxEq
  simp only [List.getElem?_map]
  congr 1
  cases h1 : l1[i]? <;> cases h2 : l2[i]? <;> simp
  exact ⟨fun e => decimal_inj e, fun e => by rw [e]⟩

/-- on canonical rows the hand model reads nothing else than `Equals.CMSRedis.equals` of
    Model/Equals.lean compares; the store is not written. -/
theorem cmsCompareLoop_canon (st : Store) (key1 key2 : String) (cols : Nat) (m1 m2 : List (List Nat)) :
    ∀ (n r : Nat),
      (∀ i, r ≤ i → i < r + n → LuaCMS.lrangeO st (cmsRowKey key1 i) = some ((m1[i]?.getD []).map decimal)) →
      (∀ i, r ≤ i → i < r + n → LuaCMS.lrangeO st (cmsRowKey key2 i) = some ((m2[i]?.getD []).map decimal)) →
      cmsCompareLoop key1 key2 cols r n st =
        (st, Equals.forFrom (fun i => Equals.forN cols
          (Equals.luaIdxEq ((m1[i]?).getD []) ((m2[i]?).getD []))) r n) := by
  intro n
  induction n with
  | zero => intro r _ _; rfl
  | succ n ih =>
    intro r h1 h2
    have e1 := h1 r (Nat.le_refl _) (by omega)
    have e2 := h2 r (Nat.le_refl _) (by omega)
    unfold cmsCompareLoop
    simp only [Script.bind, Script.try_, LuaCMS.cmdLRANGE_eq, e1, e2, Option.getD_some,
      luaIdxEq_map_decimal]
    rw [Equals.forFrom]
    cases hb : Equals.forN cols (Equals.luaIdxEq (m1[r]?.getD []) (m2[r]?.getD [])) with
    | none => exact absurd hb (forFrom_luaIdxEq_ne_none' _ _ 0 _)
    | some b =>
      cases b with
      | false => rfl
      | true =>
        exact ih (r + 1) (fun i a b => h1 i (by omega) (by omega)) (fun i a b => h2 i (by omega) (by omega))

theorem supported_bloomInit (h : BloomHandle) : SupportedOn h.keysOf (bloomInit h) :=
  supported_SET h.bitsetKey_mem _

theorem supported_cuckooSetMetadata (h : CuckooHandle) (length : Nat) :
    SupportedOn h.keysOf (cuckooSetMetadata h length) := supported_HSET h.metadataKey_mem _

theorem supported_topkCreate (t : TopKHandle) : SupportedOn t.keysOf (topkCreate t) :=
  supported_bind (supported_HSET (t.sketch_mem t.sketch.metadataKey_mem) _) fun _ =>
    supported_HSET t.metadataKey_mem _

/-! ### the abstract state of a structure depends on its keys only -/

theorem absCMS_of_agree (g : CMSHandle) (s s' : Store) (h : ∀ k ∈ g.keysOf, s' k = s k) :
    absCMS s' g = absCMS s g := by
  unfold absCMS
  congr 2
  apply List.map_congr_left
  intro r hr
  unfold cmsReadRow
  rw [h _ (g.rowKey_mem (List.mem_range.mp hr))]

theorem absHLL_of_agree (g : HLLHandle) (s s' : Store) (h : ∀ k ∈ g.keysOf, s' k = s k) :
    absHLL s' g = absHLL s g := by
  unfold absHLL
  rw [h _ g.key_mem]

end Gostatix.Redis
