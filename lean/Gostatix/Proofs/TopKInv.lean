/-
  Gostatix.Proofs.TopKInv — the invariant of the specification `Step` relation and its
  preservation along `Reach`.
-/
import Gostatix.Proofs.TopKHist
namespace Gostatix.TopK

variable {E : Type} [DecidableEq E]

/-! ### small facts on tracked lists -/

omit [DecidableEq E] in
theorem exists_min_freq : ∀ (heap : List (E × Nat)), heap ≠ [] →
    ∃ m ∈ heap, ∀ p ∈ heap, m.2 ≤ p.2
  | [], h => absurd rfl h
  | [a], _ => ⟨a, by simp, by simp⟩
  | a :: b :: t, _ => by
    obtain ⟨m, hm, hmin⟩ := exists_min_freq (b :: t) (by simp)
    by_cases h : a.2 ≤ m.2
    · refine ⟨a, by simp, ?_⟩
      intro p hp
      rcases List.mem_cons.1 hp with rfl | hp
      · exact Nat.le_refl _
      · exact Nat.le_trans h (hmin p hp)
    · refine ⟨m, List.mem_cons_of_mem _ hm, ?_⟩
      intro p hp
      rcases List.mem_cons.1 hp with rfl | hp
      · omega
      · exact hmin p hp

omit [DecidableEq E] in
theorem admit_iff_isMinFreq (k : Nat) (heap : List (E × Nat)) (f : Nat) :
    Admit k heap f ↔ (heap.length < k ∨ ∃ mn, isMinFreq heap mn ∧ mn ≤ f) := by
  unfold Admit isMinFreq
  constructor
  · rintro (h | ⟨m, hm, hmin, hf⟩)
    · exact Or.inl h
    · exact Or.inr ⟨m.2, ⟨⟨m, hm, rfl⟩, hmin⟩, hf⟩
  · rintro (h | ⟨mn, ⟨⟨m, hm, rfl⟩, hmin⟩, hf⟩)
    · exact Or.inl h
    · exact Or.inr ⟨m, hm, hmin, hf⟩

theorem mem_upsert (heap : List (E × Nat)) (x : E) (f : Nat) (p : E × Nat) :
    p ∈ upsert heap x f ↔ (p ∈ heap ∧ p.1 ≠ x) ∨ p = (x, f) := by
  simp [upsert, List.mem_filter]

theorem filter_keys_sublist (heap : List (E × Nat)) (x : E) :
    ((heap.filter (fun e => e.1 ≠ x)).map (·.1)).Sublist (heap.map (·.1)) :=
  List.Sublist.map _ List.filter_sublist

theorem upsert_nodup (heap : List (E × Nat)) (x : E) (f : Nat)
    (h : (heap.map (·.1)).Nodup) : ((upsert heap x f).map (·.1)).Nodup := by
  unfold upsert
  rw [List.map_append, List.nodup_append]
  refine ⟨List.Nodup.sublist (filter_keys_sublist heap x) h, by simp, ?_⟩
  intro a ha b hb
  simp only [List.map_cons, List.map_nil, List.mem_singleton] at hb
  subst hb
  simp only [List.mem_map, List.mem_filter] at ha
  obtain ⟨p, ⟨_, hp⟩, rfl⟩ := ha
  simpa using hp

/-- with distinct keys, dropping the entry of `x` removes at most one entry -/
theorem length_le_filter_succ (x : E) : ∀ (heap : List (E × Nat)), (heap.map (·.1)).Nodup →
    heap.length ≤ (heap.filter (fun e => e.1 ≠ x)).length + 1
  | [], _ => by simp
  | p :: t, h => by
    rw [List.map_cons, List.nodup_cons] at h
    by_cases hp : p.1 = x
    · have hall : ∀ q ∈ t, (decide (q.1 ≠ x)) = true := by
        intro q hq
        have : q.1 ≠ x := fun hq' => h.1 (by rw [hp, ← hq']; exact List.mem_map_of_mem hq)
        simpa using this
      have : t.filter (fun e => e.1 ≠ x) = t := List.filter_eq_self.2 hall
      rw [List.filter_cons_of_neg (by simp [hp]), this]
      simp only [List.length_cons]; omega
    · have ih := length_le_filter_succ x t h.2
      rw [List.filter_cons_of_pos (by simpa using hp)]
      simp only [List.length_cons]; omega

theorem upsert_length_le (heap : List (E × Nat)) (x : E) (f : Nat) :
    (upsert heap x f).length ≤ heap.length + 1 := by
  have := List.length_filter_le (fun e : E × Nat => decide (e.1 ≠ x)) heap
  simp only [upsert, List.length_append, List.length_cons, List.length_nil]; omega

theorem le_upsert_length (heap : List (E × Nat)) (x : E) (f : Nat)
    (h : (heap.map (·.1)).Nodup) : heap.length ≤ (upsert heap x f).length := by
  have := length_le_filter_succ x heap h
  simp only [upsert, List.length_append, List.length_cons, List.length_nil]; omega

/-- a specification step keeps the tracked elements distinct (no hypothesis on the estimates) -/
theorem step_nodup {k : Nat} {heap heap' : List (E × Nat)} {xf : E × Nat}
    (hs : Step k heap xf heap') (hn : (heap.map (·.1)).Nodup) : (heap'.map (·.1)).Nodup := by
  obtain ⟨hadm, hrej⟩ := hs
  by_cases hA : Admit k heap xf.2
  · obtain ⟨hev, hkeep⟩ := hadm hA
    have h1 := upsert_nodup heap xf.1 xf.2 hn
    by_cases hgt : k < (upsert heap xf.1 xf.2).length
    · obtain ⟨v, _, _, hp⟩ := hev hgt
      exact ((hp.map (·.1)).nodup_iff).2
        (List.Nodup.sublist (List.Sublist.map _ List.erase_sublist) h1)
    · exact (((hkeep hgt).map (·.1)).nodup_iff).2 h1
  · exact (((hrej hA).map (·.1)).nodup_iff).2 hn

theorem reach_nodup {k : Nat} {evs : List (Event E)} {heap : List (E × Nat)}
    (hr : Reach k evs heap) : (heap.map (·.1)).Nodup := by
  induction hr with
  | nil => simp
  | snoc _ hs ih => exact step_nodup hs ih

/-! ### the invariant -/

/-- the part of the invariant that does not mention `k` -/
structure Inv0 (evs : List (Event E)) (heap : List (E × Nat)) : Prop where
  /-- no element is tracked twice -/
  nodup : (heap.map (·.1)).Nodup
  /-- the stored frequency is the estimate of the element's LAST insert -/
  stored : ∀ p ∈ heap, lastEst evs p.1 = some p.2
  /-- an untracked element's last estimate is at most every stored frequency -/
  light : ∀ y g, lastEst evs y = some g → (∀ p ∈ heap, p.1 ≠ y) → ∀ p ∈ heap, g ≤ p.2

structure Inv (k : Nat) (evs : List (Event E)) (heap : List (E × Nat)) : Prop
    extends Inv0 evs heap where
  size : heap.length ≤ k
  /-- while the heap is not full every inserted element is tracked -/
  notfull : heap.length < k → ∀ y g, lastEst evs y = some g → ∃ p ∈ heap, p.1 = y

theorem Inv0.perm {evs : List (Event E)} {h h' : List (E × Nat)} (hi : Inv0 evs h)
    (hp : h'.Perm h) : Inv0 evs h' where
  nodup := ((hp.map (·.1)).nodup_iff).2 hi.nodup
  stored := fun p hm => hi.stored p (hp.mem_iff.1 hm)
  light := fun y g hg hno p hm =>
    hi.light y g hg (fun q hq => hno q (hp.mem_iff.2 hq)) p (hp.mem_iff.1 hm)

theorem Inv.perm {k : Nat} {evs : List (Event E)} {h h' : List (E × Nat)} (hi : Inv k evs h)
    (hp : h'.Perm h) : Inv k evs h' where
  toInv0 := hi.toInv0.perm hp
  size := by rw [hp.length_eq]; exact hi.size
  notfull := fun hl y g hg => by
    obtain ⟨p, hm, hk⟩ := hi.notfull (by rw [← hp.length_eq]; exact hl) y g hg
    exact ⟨p, hp.mem_iff.2 hm, hk⟩

theorem inv_nil (k : Nat) : Inv k ([] : List (Event E)) [] where
  nodup := by simp
  stored := by simp
  light := by simp
  size := by simp
  notfull := by simp

/-- a tracked element is always re-admitted by its own insert: its new estimate is at least
    its stored one, which is at least the minimum. -/
theorem admit_of_tracked {k : Nat} {evs : List (Event E)} {heap : List (E × Nat)}
    (hi : Inv0 evs heap) (e : Event E)
    (hmono : ∀ e' ∈ evs, e'.x = e.x → e'.f ≤ e.f)
    (p : E × Nat) (hp : p ∈ heap) (hx : p.1 = e.x) : Admit k heap e.f := by
  obtain ⟨m, hm, hmin⟩ := exists_min_freq heap (List.ne_nil_of_mem hp)
  obtain ⟨e', he', hx', hf'⟩ := lastEst_mem evs p.1 p.2 (hi.stored p hp)
  have : p.2 ≤ e.f := by rw [← hf']; exact hmono e' he' (hx'.trans hx)
  exact Or.inr ⟨m, hm, hmin, Nat.le_trans (hmin p hp) this⟩

/-- rejected insert -/
theorem inv_reject {k : Nat} {evs : List (Event E)} {heap : List (E × Nat)}
    (hi : Inv k evs heap) (e : Event E)
    (hmono : ∀ e' ∈ evs, e'.x = e.x → e'.f ≤ e.f)
    (hA : ¬ Admit k heap e.f) : Inv k (evs ++ [e]) heap := by
  have hnot : ∀ p ∈ heap, p.1 ≠ e.x := fun p hp hx =>
    hA (admit_of_tracked hi.toInv0 e hmono p hp hx)
  have hfull : ¬ heap.length < k := fun h => hA (Or.inl h)
  refine { nodup := hi.nodup, size := hi.size, stored := ?_, light := ?_, notfull := ?_ }
  · intro p hp
    rw [lastEst_snoc_ne evs e p.1 (fun h => hnot p hp h.symm)]
    exact hi.stored p hp
  · intro y g hg hno p hp
    by_cases hy : e.x = y
    · subst hy
      rw [lastEst_snoc_self] at hg
      have : e.f = g := by simpa using hg
      subst this
      obtain ⟨m, hm, hmin⟩ := exists_min_freq heap (List.ne_nil_of_mem hp)
      have : ¬ m.2 ≤ e.f := fun h => hA (Or.inr ⟨m, hm, hmin, h⟩)
      have := hmin p hp
      omega
    · rw [lastEst_snoc_ne evs e y hy] at hg
      exact hi.light y g hg hno p hp
  · intro h; exact absurd h hfull

/-- admitted insert, before a possible eviction -/
theorem inv0_upsert {k : Nat} {evs : List (Event E)} {heap : List (E × Nat)}
    (hi : Inv k evs heap) (e : Event E) (hA : Admit k heap e.f) :
    Inv0 (evs ++ [e]) (upsert heap e.x e.f) := by
  refine { nodup := upsert_nodup heap e.x e.f hi.nodup, stored := ?_, light := ?_ }
  · intro p hp
    rcases (mem_upsert heap e.x e.f p).1 hp with ⟨hm, hne⟩ | rfl
    · rw [lastEst_snoc_ne evs e p.1 (fun h => hne h.symm)]
      exact hi.stored p hm
    · exact lastEst_snoc_self evs e
  · intro y g hg hno p hp
    have hy : e.x ≠ y := fun h => hno (e.x, e.f) ((mem_upsert _ _ _ _).2 (Or.inr rfl)) h
    rw [lastEst_snoc_ne evs e y hy] at hg
    have hno' : ∀ q ∈ heap, q.1 ≠ y := by
      intro q hq hqy
      exact hno q ((mem_upsert _ _ _ _).2 (Or.inl ⟨hq, fun h => hy (h.symm.trans hqy)⟩)) hqy
    rcases (mem_upsert heap e.x e.f p).1 hp with ⟨hm, _⟩ | rfl
    · exact hi.light y g hg hno' p hm
    · rcases hA with hl | ⟨m, hm, _, hf⟩
      · obtain ⟨q, hq, hqy⟩ := hi.notfull hl y g hg
        exact absurd hqy (hno' q hq)
      · exact Nat.le_trans (hi.light y g hg hno' m hm) hf

/-- eviction of an entry of minimal frequency -/
theorem inv0_erase {evs : List (Event E)} {h : List (E × Nat)} (hi : Inv0 evs h)
    (v : E × Nat) (hmin : ∀ p ∈ h, v.2 ≤ p.2) : Inv0 evs (h.erase v) := by
  have hsub : ∀ p ∈ h.erase v, p ∈ h := fun p hp => List.mem_of_mem_erase hp
  refine { nodup := ?_, stored := fun p hp => hi.stored p (hsub p hp), light := ?_ }
  · exact List.Nodup.sublist (List.Sublist.map _ List.erase_sublist) hi.nodup
  · intro y g hg hno p hp
    by_cases hex : ∃ q ∈ h, q.1 = y
    · obtain ⟨q, hq, hqy⟩ := hex
      have hqv : q = v := by
        apply Classical.byContradiction
        intro hne
        exact hno q ((List.mem_erase_of_ne hne).2 hq) hqy
      subst hqv
      have := hi.stored q hq
      rw [hqy, hg] at this
      have : g = q.2 := by simpa using this
      rw [this]; exact hmin p (hsub p hp)
    · have hno' : ∀ q ∈ h, q.1 ≠ y := fun q hq hqy => hex ⟨q, hq, hqy⟩
      exact hi.light y g hg hno' p (hsub p hp)

/-- the invariant is preserved by one specification step -/
theorem inv_step {k : Nat} {evs : List (Event E)} {heap heap' : List (E × Nat)}
    (hi : Inv k evs heap) (e : Event E)
    (hmono : ∀ e' ∈ evs, e'.x = e.x → e'.f ≤ e.f)
    (hs : Step k heap (e.x, e.f) heap') : Inv k (evs ++ [e]) heap' := by
  obtain ⟨hadm, hrej⟩ := hs
  by_cases hA : Admit k heap e.f
  · obtain ⟨hev, hkeep⟩ := hadm hA
    have h0 := inv0_upsert hi e hA
    have hub := upsert_length_le heap e.x e.f
    have hlb := le_upsert_length heap e.x e.f hi.nodup
    have hsz := hi.size
    -- every element of the new history is tracked by the upserted list while `heap` is not full
    have hall : heap.length < k → ∀ y g, lastEst (evs ++ [e]) y = some g →
        ∃ p ∈ upsert heap e.x e.f, p.1 = y := by
      intro hl y g hg
      by_cases hy : e.x = y
      · exact ⟨(e.x, e.f), (mem_upsert _ _ _ _).2 (Or.inr rfl), hy⟩
      · rw [lastEst_snoc_ne evs e y hy] at hg
        obtain ⟨p, hp, hpy⟩ := hi.notfull hl y g hg
        exact ⟨p, (mem_upsert _ _ _ _).2 (Or.inl ⟨hp, fun h => hy (h.symm.trans hpy)⟩), hpy⟩
    by_cases hgt : k < (upsert heap e.x e.f).length
    · obtain ⟨v, hv, hvmin, hperm⟩ := hev hgt
      have h1 := (inv0_erase h0 v hvmin).perm hperm
      have hlen : heap'.length = (upsert heap e.x e.f).length - 1 := by
        rw [hperm.length_eq, List.length_erase_of_mem hv]
      exact { toInv0 := h1, size := by omega, notfull := fun hl => by omega }
    · have hperm := hkeep hgt
      have h1 := h0.perm hperm
      have hlen : heap'.length = (upsert heap e.x e.f).length := hperm.length_eq
      refine { toInv0 := h1, size := by omega, notfull := ?_ }
      intro hl y g hg
      obtain ⟨p, hp, hpy⟩ := hall (by omega) y g hg
      exact ⟨p, hperm.mem_iff.2 hp, hpy⟩
  · exact (inv_reject hi e hmono hA).perm (hrej hA)

/-- every reachable heap of a history with Count-Min-like estimates satisfies the invariant -/
theorem reach_inv {k : Nat} {evs : List (Event E)} {heap : List (E × Nat)}
    (hr : Reach k evs heap) (he : EstOK evs) : Inv k evs heap := by
  induction hr with
  | nil => exact inv_nil k
  | @snoc evs heap e heap' _ hs ih =>
    obtain ⟨h0, _, _, hmono⟩ := (estOK_snoc evs e).1 he
    exact inv_step (ih h0) e hmono hs

/-! ### consequences used by the property theorems -/

theorem inv_size {k : Nat} {evs : List (Event E)} {heap : List (E × Nat)}
    (hi : Inv k evs heap) : heap.length = min k (numDistinct evs) := by
  unfold numDistinct
  have hle : heap.length ≤ (distinct (evs.map (·.x))).length := by
    have := length_le_of_nodup_subset (heap.map (·.1)) (distinct (evs.map (·.x))) hi.nodup (by
      intro a ha
      obtain ⟨p, hp, rfl⟩ := List.mem_map.1 ha
      obtain ⟨e, he, hx, _⟩ := lastEst_mem evs p.1 p.2 (hi.stored p hp)
      rw [mem_distinct]
      exact List.mem_map.2 ⟨e, he, hx⟩)
    simpa using this
  have hsz := hi.size
  by_cases hl : heap.length < k
  · have hge : (distinct (evs.map (·.x))).length ≤ heap.length := by
      have := length_le_of_nodup_subset (distinct (evs.map (·.x))) (heap.map (·.1))
        (distinct_nodup _) (by
          intro a ha
          rw [mem_distinct] at ha
          obtain ⟨e, he, rfl⟩ := List.mem_map.1 ha
          obtain ⟨g, hg⟩ := lastEst_of_mem evs e he
          obtain ⟨p, hp, hpx⟩ := hi.notfull hl e.x g hg
          exact List.mem_map.2 ⟨p, hp, hpx⟩)
      simpa using this
    omega
  · omega

end Gostatix.TopK
