/-
  Gostatix.Proofs.C05Est — helper lemmas for `Props/C05Est.lean` (HyperLogLog estimate, C05 / D4).

   * `harmonic regs = Σ_j 2^(-reg_j)` (the `harmonicMean` accumulator of `Count`), over ℝ;
   * `harmonic_eq_sum_range`     the list sum as a sum over positions `0 .. length-1`;
   * `harmonic_le_length`, `harmonic_pos`, `harmonic_replicate_zero`;
   * `harmonic_ge_of_untouched`  if every position outside a finite set `T` holds 0 then
                                 `length - #T ≤ harmonic`;
   * `foldl_upd_getD_untouched`  positions outside the touched index set keep their value under any
                                 history of `upd`;
   * `indexOf_zero`, `indexOf_one` the ranks of the hashes 0 and 1.
-/
import Mathlib.Data.Real.Basic
import Mathlib.Algebra.Order.BigOperators.Group.Finset
import Mathlib.Algebra.Order.Field.Power
import Mathlib.Tactic.Linarith
import Mathlib.Tactic.NormNum
import Mathlib.Tactic.Positivity
import Mathlib.Tactic.IntervalCases
import Mathlib.Tactic.FieldSimp
import Mathlib.Order.Interval.Finset.Nat
import Gostatix.Model.HLL
import Gostatix.Proofs.HLL
namespace Gostatix.HLL
open Finset

/-- one summand of `Count`: `math.Pow(2, -float64(reg))` -/
noncomputable def term (r : Nat) : ℝ := (2 : ℝ) ^ (-(r : ℤ))

/-- the accumulator `harmonicMean` of `Count`: `Σ_j 2^(-reg_j)` -/
noncomputable def harmonic (regs : List Nat) : ℝ := (regs.map fun (r : Nat) => (2 : ℝ) ^ (-(r : ℤ))).sum

theorem harmonic_eq_map_term (regs : List Nat) : harmonic regs = (regs.map term).sum := by
  unfold harmonic term; rfl

theorem term_pos (r : Nat) : 0 < term r := zpow_pos (by norm_num) _

theorem term_le_one (r : Nat) : term r ≤ 1 := by
  unfold term
  rw [zpow_neg, zpow_natCast]
  exact inv_le_one_of_one_le₀ (one_le_pow₀ (by norm_num))

@[simp] theorem term_zero : term 0 = 1 := by simp [term]

@[simp] theorem harmonic_nil : harmonic [] = 0 := by simp [harmonic]

@[simp] theorem harmonic_cons (a : Nat) (l : List Nat) :
    harmonic (a :: l) = term a + harmonic l := by simp [harmonic, term]

/-- the list sum written as a sum over the positions -/
theorem harmonic_eq_sum_range (regs : List Nat) :
    harmonic regs = ∑ i ∈ range regs.length, term (regs.getD i 0) := by
  induction regs with
  | nil => simp
  | cons a l ih =>
    rw [harmonic_cons, List.length_cons, Finset.sum_range_succ', ih]
    simp [add_comm]

theorem harmonic_le_length (regs : List Nat) : harmonic regs ≤ regs.length := by
  induction regs with
  | nil => simp
  | cons a l ih =>
    rw [harmonic_cons, List.length_cons]; push_cast
    linarith [term_le_one a]

theorem harmonic_nonneg (regs : List Nat) : 0 ≤ harmonic regs := by
  induction regs with
  | nil => simp
  | cons a l ih => rw [harmonic_cons]; linarith [term_pos a]

theorem harmonic_pos (regs : List Nat) (h : regs ≠ []) : 0 < harmonic regs := by
  cases regs with
  | nil => exact absurd rfl h
  | cons a l => rw [harmonic_cons]; linarith [term_pos a, harmonic_nonneg l]

theorem harmonic_replicate_zero (m : Nat) : harmonic (List.replicate m 0) = m := by
  induction m with
  | zero => simp
  | succ m ih => rw [List.replicate_succ, harmonic_cons, ih]; push_cast; simp [add_comm]

/-- if every position outside the finite set `T` holds 0, the harmonic sum is at least
    `length - #T`: each of the (at least `length - #T`) untouched positions contributes `2^0 = 1`
    and every other position contributes something positive. -/
theorem harmonic_ge_of_untouched (T : Finset Nat) (regs : List Nat)
    (h : ∀ j, j ∉ T → regs.getD j 0 = 0) :
    (regs.length : ℝ) - T.card ≤ harmonic regs := by
  rw [harmonic_eq_sum_range]
  have h1 : ∑ i ∈ range regs.length \ T, term (regs.getD i 0)
      ≤ ∑ i ∈ range regs.length, term (regs.getD i 0) :=
    Finset.sum_le_sum_of_subset_of_nonneg Finset.sdiff_subset
      (fun i _ _ => le_of_lt (term_pos _))
  have h2 : ∑ i ∈ range regs.length \ T, term (regs.getD i 0)
      = ((range regs.length \ T).card : ℝ) := by
    rw [Finset.sum_congr rfl (g := fun _ => (1 : ℝ))]
    · simp
    · intro i hi
      rw [h i (Finset.mem_sdiff.mp hi).2, term_zero]
  have h3 : regs.length ≤ (range regs.length \ T).card + T.card := by
    have := Finset.le_card_sdiff T (range regs.length)
    rw [Finset.card_range] at this
    omega
  have h4 : (regs.length : ℝ) ≤ ((range regs.length \ T).card : ℝ) + T.card := by
    exact_mod_cast h3
  linarith

/-- positions outside the touched index set keep their value, whatever the history -/
theorem foldl_upd_getD_untouched (regs : List Nat) (h : List (Nat × Nat)) (j : Nat)
    (hj : ∀ iv ∈ h, iv.1 ≠ j) : (h.foldl upd regs).getD j 0 = regs.getD j 0 := by
  induction h generalizing regs with
  | nil => rfl
  | cons iv h ih =>
    simp only [List.foldl_cons]
    rw [ih (upd regs iv) (fun x hx => hj x (List.mem_cons_of_mem _ hx))]
    have := hj iv List.mem_cons_self
    unfold upd
    exact modAt_getD_ne regs iv.1 j _ 0 (fun e => this e.symm)

theorem foldl_upd_length' (regs : List Nat) (h : List (Nat × Nat)) :
    (h.foldl upd regs).length = regs.length := by
  induction h generalizing regs with
  | nil => rfl
  | cons iv h ih => simp only [List.foldl_cons]; rw [ih, upd_length]

/-- the all-zero hash has rank 65 for every precision -/
theorem indexOf_zero (p : Nat) : indexOf 0 p = 65 := by
  unfold indexOf
  rw [Nat.zero_mul, Nat.zero_mod]
  decide

/-- the hash 1 has rank `64 - p` for `p ≤ 5` (and in fact for every `p ≤ 63`; only the small
    precisions are needed) -/
theorem indexOf_one (p : Nat) (hp : p ≤ 5) : indexOf 1 p = 64 - p := by
  interval_cases p <;> decide

end Gostatix.HLL
