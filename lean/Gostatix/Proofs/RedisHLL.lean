/-
  Gostatix.Proofs.RedisHLL — the Lua scripts of hyperloglog_redis.go simulate the in-memory
  register array (`Gostatix.HLL`) through the abstraction `absHLL`.
-/
import Gostatix.Proofs.RedisCMS
namespace Gostatix.Redis

theorem absHLL_eq_some_iff (s : Store) (h : HLLHandle) (c : HLL) :
    absHLL s h = some c ↔ c.m = h.m ∧ RowIs s h.key h.m c.regs := by
  unfold absHLL RowIs
  constructor
  · intro hh
    split at hh
    · rename_i l hl
      split at hh
      · rename_i hlen
        rw [readNums, Option.map_eq_some_iff] at hh
        obtain ⟨regs, hr, rfl⟩ := hh
        exact ⟨rfl, l, hl, hlen, (optAll_eq_some_iff _ _).mp hr⟩
      · cases hh
    · cases hh
  · rintro ⟨hm, l, hl, hlen, hmap⟩
    rw [hl]; simp only [hlen, if_true]
    rw [readNums, (optAll_eq_some_iff _ _).mpr hmap]
    cases c; simp only at hm; subst hm; rfl

/-- writing at position `c` a string that reads as `f (row[c])`. -/
theorem set_map_parse' {l : List String} {row : List Nat} (hm : l.map parseDecimal = row.map some)
    (c : Nat) (f : Nat → Nat) (v : String) (hv : parseDecimal v = some (f (row.getD c 0)))
    (hc : c < l.length) :
    (l.set c v).map parseDecimal = (modAt row c f).map some := by
  induction l generalizing row c with
  | nil => simp at hc
  | cons a l ih =>
    cases row with
    | nil => simp at hm
    | cons x row =>
      simp only [List.map_cons, List.cons.injEq] at hm
      cases c with
      | zero => simpa [modAt, hm.2] using hv
      | succ c =>
        have := ih hm.2 c (by simpa using hv) (by simpa using hc)
        simpa [modAt, hm.1] using this

theorem getElem_parse {l : List String} {row : List Nat} (hm : l.map parseDecimal = row.map some)
    {c : Nat} (hc : c < l.length) : parseDecimal l[c] = some (row.getD c 0) := by
  have hrowlen : row.length = l.length := by
    have := congrArg List.length hm; simpa using this.symm
  have h1 : (l.map parseDecimal)[c]? = (row.map some)[c]? := by rw [hm]
  rw [List.getElem?_map, List.getElem?_map, List.getElem?_eq_getElem hc] at h1
  have hr : row[c]? = some (row.getD c 0) := by
    rw [List.getD_eq_getElem?_getD, List.getElem?_eq_getElem (by omega)]; rfl
  rw [hr] at h1
  simpa using h1

/-! ### init -/

theorem hll_init_abs (h : HLLHandle) (s : Store) (hfresh : s h.key = none)
    (hm : 0 < h.m) (heven : h.m % 2 = 0) :
    ∃ s', hllInit h s = (s', some ()) ∧ absHLL s' h = some (HLL.new h.m) ∧
      ∀ k, k ≠ h.key → s' k = s k := by
  have hhalf : 0 < h.m / 2 := by omega
  have hne : List.replicate (h.m / 2) (decimal 0) ≠ [] := by
    intro e
    have := congrArg List.length e
    simp at this; omega
  let zs := List.replicate (h.m / 2) (decimal 0)
  let s1 := s.set h.key (.list zs.reverse)
  let s2 := s1.set h.key (.list (zs.reverse ++ zs.reverse))
  refine ⟨s2, ?_, ?_, ?_⟩
  · unfold hllInit
    rw [Script.bind_ok (cmdLPUSH_none hfresh hne)]
    exact cmdLPUSH_list (Store.set_self _ _ _) hne
  · refine (absHLL_eq_some_iff _ _ _).mpr ⟨rfl, _, Store.set_self _ _ _, ?_, ?_⟩
    · simp [zs]; omega
    · simp only [zs, List.reverse_replicate, List.replicate_append_replicate, List.map_replicate,
        parseDecimal_decimal, HLL.new]
      congr 1; omega
  · intro k hk
    show (s1.set _ _) k = s k
    rw [Store.set_ne _ _ hk]
    exact Store.set_ne _ _ hk

/-! ### update -/

theorem hll_update_abs (h : HLLHandle) (s : Store) (c : HLL) (idx val : Nat)
    (habs : absHLL s h = some c) (hidx : idx < h.m) :
    ∃ s' c', HLL.update c idx val = .ok c' ∧ hllUpdate h idx val s = (s', some ()) ∧
      absHLL s' h = some c' ∧ ∀ k, k ≠ h.key → s' k = s k := by
  obtain ⟨hm, l, hl, hlen, hmap⟩ := (absHLL_eq_some_iff _ _ _).mp habs
  have hrl : c.regs.length = h.m := RowIs.length ⟨l, hl, hlen, hmap⟩
  have hil : idx < l.length := by omega
  have hparse := getElem_parse hmap hil
  let v := if val > c.regs.getD idx 0 then decimal val else l[idx]
  have hv : parseDecimal v = some (max (c.regs.getD idx 0) val) := by
    simp only [v]
    split
    · rw [parseDecimal_decimal]; congr 1; omega
    · rw [hparse]; congr 1; omega
  refine ⟨s.set h.key (.list (l.set idx v)),
    { c with regs := modAt c.regs idx (fun o => max o val) }, ?_, ?_, ?_, ?_⟩
  · unfold HLL.update; rw [if_pos (by omega)]
  · unfold hllUpdate
    rw [Script.bind_ok (cmdLINDEX_list hl idx), List.getElem?_eq_getElem hil,
      Script.bind_ok (luaNumber_some hparse s)]
    exact cmdLSET_list hl hil _
  · refine (absHLL_eq_some_iff _ _ _).mpr ⟨hm, _, Store.set_self _ _ _, by simpa using hlen, ?_⟩
    exact set_map_parse' hmap idx (fun o => max o val) v hv hil
  · intro k hk; exact Store.set_ne _ _ hk

/-- out of range: the in-memory variant panics (index out of range), the Redis variant returns
    the script's error (`LINDEX` gives nil, comparing with nil raises); nothing is written. -/
theorem hll_update_out_of_range (h : HLLHandle) (s : Store) (c : HLL) (idx val : Nat)
    (habs : absHLL s h = some c) (hidx : h.m ≤ idx) :
    HLL.update c idx val = .panic ∧ hllUpdate h idx val s = (s, none) := by
  obtain ⟨hm, l, hl, hlen, hmap⟩ := (absHLL_eq_some_iff _ _ _).mp habs
  have hrl : c.regs.length = h.m := RowIs.length ⟨l, hl, hlen, hmap⟩
  constructor
  · unfold HLL.update; rw [if_neg (by omega)]
  · unfold hllUpdate
    rw [Script.bind_ok (cmdLINDEX_list hl idx), List.getElem?_eq_none (by omega)]
    rfl

/-! ### merge -/

theorem hllMergeVals_spec :
    ∀ (n : Nat) (l1 l2 : List String) (r1 r2 : List Nat) (s : Store),
      l1.length = n → l2.length = n →
      l1.map parseDecimal = r1.map some → l2.map parseDecimal = r2.map some →
      ∃ l', hllMergeVals n l1 l2 s = (s, some l') ∧ l'.length = n ∧
        l'.map parseDecimal = (HLL.mergeRegs r1 r2).map some := by
  intro n
  induction n with
  | zero =>
    intro l1 l2 r1 r2 s h1 h2 m1 m2
    cases l1 with
    | cons a l => simp at h1
    | nil =>
      cases r1 with
      | cons x r => simp at m1
      | nil => exact ⟨[], rfl, rfl, by cases r2 <;> rfl⟩
  | succ n ih =>
    intro l1 l2 r1 r2 s h1 h2 m1 m2
    cases l1 with
    | nil => simp at h1
    | cons a l1 =>
      cases l2 with
      | nil => simp at h2
      | cons b l2 =>
        cases r1 with
        | nil => simp at m1
        | cons x r1 =>
          cases r2 with
          | nil => simp at m2
          | cons y r2 =>
            simp only [List.map_cons, List.cons.injEq] at m1 m2
            simp only [List.length_cons, Nat.add_right_cancel_iff] at h1 h2
            obtain ⟨l', hrun, hlen, hmap⟩ := ih l1 l2 r1 r2 s h1 h2 m1.2 m2.2
            refine ⟨(if x < y then b else a) :: l', ?_, by simp [hlen], ?_⟩
            · unfold hllMergeVals
              simp only [List.head?_cons, List.tail_cons]
              rw [Script.bind_ok (luaNumber_some m1.1 s), Script.bind_ok (luaNumber_some m2.1 s),
                Script.bind_ok hrun]
              rfl
            · simp only [List.map_cons, HLL.mergeRegs, hmap, List.cons.injEq, and_true]
              split
              · rw [m2.1]; congr 1; omega
              · rw [m1.1]; congr 1; omega

theorem mergeRegs_length (a b : List Nat) : (HLL.mergeRegs a b).length = a.length := by
  induction a generalizing b with
  | nil => cases b <;> rfl
  | cons x a ih => cases b <;> simp [HLL.mergeRegs, ih]

theorem hll_merge_abs (h g : HLLHandle) (s : Store) (a b : HLL)
    (ha : absHLL s h = some a) (hb : absHLL s g = some b) (hm : 0 < h.m) :
    match HLL.merge a b with
    | .ok c => ∃ s', hllMerge h g s = (s', some ()) ∧ absHLL s' h = some c ∧
        (h.key ≠ g.key → absHLL s' g = some b) ∧ ∀ k, k ≠ h.key → s' k = s k
    | .err => hllMerge h g s = (s, none)
    | .panic => False := by
  obtain ⟨am, l1, hl1, hlen1, hmap1⟩ := (absHLL_eq_some_iff _ _ _).mp ha
  obtain ⟨bm, l2, hl2, hlen2, hmap2⟩ := (absHLL_eq_some_iff _ _ _).mp hb
  unfold HLL.merge hllMerge
  by_cases hmm : h.m = g.m
  · have e1 : ¬ (a.m ≠ b.m) := by omega
    have e2 : ¬ (h.m ≠ g.m) := by omega
    rw [if_neg e1, if_neg e2]
    simp only
    obtain ⟨l', hrun, hlen', hmap'⟩ :=
      hllMergeVals_spec h.m l1 l2 a.regs b.regs s hlen1 (by omega) hmap1 hmap2
    have hne : l' ≠ [] := by
      intro e; rw [e] at hlen'; simp at hlen'; omega
    let s' := (s.del h.key).set h.key (.list l')
    have hs' : ∀ k, k ≠ h.key → s' k = s k := by
      intro k hk
      show ((s.del h.key).set _ _) k = s k
      rw [Store.set_ne _ _ hk, Store.del_ne _ hk]
    refine ⟨s', ?_, ?_, ?_, hs'⟩
    · unfold hllMergeScript
      have t1 : Script.try_ (cmdLRANGE h.key) s = (s, some (some l1)) := by
        unfold Script.try_; rw [cmdLRANGE_list hl1]
      have t2 : Script.try_ (cmdLRANGE g.key) s = (s, some (some l2)) := by
        unfold Script.try_; rw [cmdLRANGE_list hl2]
      rw [Script.bind_ok t1, Script.bind_ok t2]
      simp only [Option.getD_some]
      rw [Script.bind_ok hrun]
      have t3 : Script.try_ (cmdDEL h.key) s = (s.del h.key, some (some ())) := rfl
      rw [Script.bind_ok t3]
      have t4 : Script.try_ (cmdRPUSH h.key l') (s.del h.key) = (s', some (some ())) := by
        unfold Script.try_; rw [cmdRPUSH_none (Store.del_self _ _) hne]
      rw [Script.bind_ok t4]
      rfl
    · exact (absHLL_eq_some_iff _ _ _).mpr ⟨am, l', Store.set_self _ _ _, hlen', hmap'⟩
    · intro hk
      refine (absHLL_eq_some_iff _ _ _).mpr ⟨bm, l2, ?_, hlen2, hmap2⟩
      rw [hs' _ (Ne.symm hk)]; exact hl2
  · have e1 : a.m ≠ b.m := by omega
    have e2 : h.m ≠ g.m := by omega
    rw [if_pos e1, if_pos e2]
    rfl

/-! ### equals -/

theorem hllCompareVals_spec :
    ∀ (n : Nat) (l1 l2 : List String) (r1 r2 : List Nat),
      l1.length = n → l2.length = n →
      l1.map parseDecimal = r1.map some → l2.map parseDecimal = r2.map some →
      hllCompareVals n l1 l2 = (r1 == r2) := by
  intro n
  induction n with
  | zero =>
    intro l1 l2 r1 r2 h1 h2 m1 m2
    cases l1 with
    | cons a l => simp at h1
    | nil =>
      cases l2 with
      | cons a l => simp at h2
      | nil =>
        cases r1 with
        | cons x r => simp at m1
        | nil =>
          cases r2 with
          | cons x r => simp at m2
          | nil => rfl
  | succ n ih =>
    intro l1 l2 r1 r2 h1 h2 m1 m2
    cases l1 with
    | nil => simp at h1
    | cons a l1 =>
      cases l2 with
      | nil => simp at h2
      | cons b l2 =>
        cases r1 with
        | nil => simp at m1
        | cons x r1 =>
          cases r2 with
          | nil => simp at m2
          | cons y r2 =>
            simp only [List.map_cons, List.cons.injEq] at m1 m2
            simp only [List.length_cons, Nat.add_right_cancel_iff] at h1 h2
            unfold hllCompareVals
            simp only [List.head?_cons, List.tail_cons, Option.bind_some, m1.1, m2.1,
              ih l1 l2 r1 r2 h1 h2 m1.2 m2.2]
            by_cases e : x = y
            · subst e; simp
            · simp [e]

theorem hll_equals_abs (h g : HLLHandle) (s : Store) (a b : HLL)
    (ha : absHLL s h = some a) (hb : absHLL s g = some b) :
    hllEquals h g s = (s, some (HLL.equals a b)) := by
  obtain ⟨am, l1, hl1, hlen1, hmap1⟩ := (absHLL_eq_some_iff _ _ _).mp ha
  obtain ⟨bm, l2, hl2, hlen2, hmap2⟩ := (absHLL_eq_some_iff _ _ _).mp hb
  unfold HLL.equals hllEquals
  by_cases hmm : h.m = g.m
  · have e1 : ¬ (a.m ≠ b.m) := by omega
    have e2 : ¬ (h.m ≠ g.m) := by omega
    rw [if_neg e1, if_neg e2]
    have t1 : Script.try_ (cmdLRANGE h.key) s = (s, some (some l1)) := by
      unfold Script.try_; rw [cmdLRANGE_list hl1]
    have t2 : Script.try_ (cmdLRANGE g.key) s = (s, some (some l2)) := by
      unfold Script.try_; rw [cmdLRANGE_list hl2]
    rw [Script.bind_ok t1, Script.bind_ok t2]
    simp only [Option.getD_some]
    rw [hllCompareVals_spec h.m l1 l2 a.regs b.regs hlen1 (by omega) hmap1 hmap2]
    rfl
  · have e1 : a.m ≠ b.m := by omega
    have e2 : h.m ≠ g.m := by omega
    rw [if_pos e1, if_pos e2]
    rfl

end Gostatix.Redis
