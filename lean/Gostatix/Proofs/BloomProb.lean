/-
  Gostatix.Proofs.BloomProb — finite counting lemmas behind the Bloom false-positive bound under
  IDEAL hashing (`Props/C15Bloom.lean`).  No measure theory: "probability" is a fraction of the
  finite family of all functions `g : E → Fin k → Fin m`.

  Model side (no Mathlib needed, but kept here with the rest):
   * `getD_set_true_iff`, `setBits_getD_iff`, `run_getD_iff`
                                a bit is set after a history iff it was set before or it is an
                                in-range probe of an inserted element (the CONVERSE of the
                                monotonicity lemmas of `Props/C01.lean`);
   * `insertsOf`                the elements a history inserts, `run_eq_run_inserts`.
  Ideal family:
   * `idealProbes g x`          the probe list `[g x 0, …, g x (k-1)]` of `x`;
   * `bitSet g h`               the set of bits (as a `Finset (Fin m)`) that are set after running
                                `h` on the empty filter `Bloom.new m k`;
   * `bitSet_eq_biUnion`        it is the union of the probe images of the inserted elements;
   * `lookup_iff_forall_mem`    `lookup y` ↔ every probe of `y` lies in `bitSet`;
   * `bitSet_update`            it does not depend on the probes of a never-inserted element;
   * `card_bitSet_le`           `#bitSet ≤ #distinct inserted · k`.
  Counting:
   * `card_mem_mul_card`        "independence" by double counting: if `T g` does not depend on
                                `g y`, then  #{g | g y ∈ T g} · #F = Σ_g #(T g);
   * `sum_card_fiberwise`       regrouping a sum `Σ_g f (B g)` by the value of `B g`.
-/
import Mathlib.Data.Fintype.BigOperators
import Mathlib.Data.Fintype.Pi
import Mathlib.Algebra.Order.BigOperators.Group.Finset
import Gostatix.Props.C01
namespace Gostatix.Bloom
open Finset

/-! ### model side: exactly which bits are set -/

theorem getD_set_true_iff (bits : List Bool) (p q : Nat) :
    (bits.set p true).getD q false = true
      ↔ bits.getD q false = true ∨ (q = p ∧ q < bits.length) := by
  by_cases e : p = q
  · subst e
    by_cases hl : p < bits.length
    · simp [List.getD_eq_getElem?_getD, hl]
    · simp [List.getD_eq_getElem?_getD, hl]
  · have e' : ¬ q = p := fun h => e h.symm
    simp [List.getD_eq_getElem?_getD, List.getElem?_set_ne e, e']

theorem setBits_getD_iff (bits : List Bool) (ps : List Nat) (q : Nat) :
    (setBits bits ps).getD q false = true
      ↔ bits.getD q false = true ∨ (q ∈ ps ∧ q < bits.length) := by
  induction ps generalizing bits with
  | nil => simp [setBits]
  | cons p ps ih =>
    have e : setBits bits (p :: ps) = setBits (bits.set p true) ps := by
      simp [setBits, List.foldl_cons]
    rw [e, ih, getD_set_true_iff, List.length_set, List.mem_cons]
    constructor
    · rintro ((h | ⟨h1, h2⟩) | ⟨h1, h2⟩)
      · exact Or.inl h
      · exact Or.inr ⟨Or.inl h1, h2⟩
      · exact Or.inr ⟨Or.inr h1, h2⟩
    · rintro (h | ⟨h1 | h1, h2⟩)
      · exact Or.inl (Or.inl h)
      · exact Or.inl (Or.inr ⟨h1, h2⟩)
      · exact Or.inr ⟨h1, h2⟩

/-- the elements inserted by a history, in order (lookups dropped). -/
def insertsOf {E : Type} : List (BloomOp E) → List E
  | [] => []
  | .insert e :: h => e :: insertsOf h
  | .lookup _ :: h => insertsOf h

@[simp] theorem insertsOf_map_insert {E : Type} (S : List E) :
    insertsOf (S.map BloomOp.insert) = S := by
  induction S with
  | nil => rfl
  | cons x S ih => simp [insertsOf, ih]

theorem length_insertsOf_le {E : Type} (h : List (BloomOp E)) :
    (insertsOf h).length ≤ h.length := by
  induction h with
  | nil => simp [insertsOf]
  | cons op h ih => cases op <;> simp [insertsOf] <;> omega

/-- lookups are no-ops: a history acts like the list of its inserts. -/
theorem run_eq_run_inserts {E : Type} (probes : E → List Nat) (b : Bloom)
    (h : List (BloomOp E)) :
    run probes b h = run probes b ((insertsOf h).map BloomOp.insert) := by
  induction h generalizing b with
  | nil => rfl
  | cons op h ih =>
    cases op with
    | insert e => simpa [run, insertsOf, step] using ih (b.insert (probes e))
    | lookup e => simpa [run, insertsOf, step] using ih b

/-- **which bits are set**: after a history, bit `q` is set iff it was set before or it is an
    in-range probe of an inserted element.  (`Props/C01.lean` has the `←` direction only.) -/
theorem run_getD_iff {E : Type} (probes : E → List Nat) (b : Bloom) (h : List (BloomOp E))
    (q : Nat) :
    (run probes b h).bits.getD q false = true
      ↔ b.bits.getD q false = true
        ∨ (q < b.bits.length ∧ ∃ x ∈ insertsOf h, q ∈ probes x) := by
  induction h generalizing b with
  | nil => simp [run, insertsOf]
  | cons op h ih =>
    have e : run probes b (op :: h) = run probes (step probes b op) h := by
      simp [run, List.foldl_cons]
    rw [e, ih, step_length]
    cases op with
    | lookup y => simp [step, insertsOf]
    | insert y =>
      simp only [step, insert, insertsOf, List.mem_cons, exists_eq_or_imp, setBits_getD_iff]
      tauto

theorem new_getD (m k q : Nat) : (Bloom.new m k).bits.getD q false = false := by
  simp only [new, List.getD_eq_getElem?_getD, List.getElem?_replicate]
  split <;> rfl

theorem new_length (m k : Nat) : (Bloom.new m k).bits.length = max m 1 := by simp [new]

/-! ### the ideal hash family -/

section ideal
variable {E : Type} {m k : ℕ}

/-- probe list of `x` under the member `g` of the ideal family: `[g x 0, …, g x (k-1)]`. -/
def idealProbes (g : E → Fin k → Fin m) (x : E) : List Nat := List.ofFn (fun i => (g x i : Nat))

theorem idealProbes_length (g : E → Fin k → Fin m) (x : E) : (idealProbes g x).length = k := by
  simp [idealProbes]

theorem mem_idealProbes (g : E → Fin k → Fin m) (x : E) (q : Nat) :
    q ∈ idealProbes g x ↔ ∃ i, (g x i : Nat) = q := by
  simp [idealProbes, List.mem_ofFn]

/-- every member of the family probes in range (hypothesis of `C01_no_false_negative`). -/
theorem idealProbes_in_range (g : E → Fin k → Fin m) (x : E) :
    ∀ p ∈ idealProbes g x, p < (Bloom.new m k).bits.length := by
  intro p hp
  obtain ⟨i, rfl⟩ := (mem_idealProbes g x p).mp hp
  rw [new_length]
  exact lt_of_lt_of_le (g x i).isLt (Nat.le_max_left _ _)

/-- the set of bits that are set after running `h` on the empty filter, with the probes of `g`. -/
def bitSet (g : E → Fin k → Fin m) (h : List (BloomOp E)) : Finset (Fin m) :=
  univ.filter (fun q : Fin m =>
    (run (idealProbes g) (Bloom.new m k) h).bits.getD (q : Nat) false = true)

theorem mem_bitSet (g : E → Fin k → Fin m) (h : List (BloomOp E)) (q : Fin m) :
    q ∈ bitSet g h ↔ ∃ x ∈ insertsOf h, ∃ i, g x i = q := by
  simp only [bitSet, mem_filter, mem_univ, true_and, run_getD_iff, new_getD, new_length,
    mem_idealProbes, Fin.val_inj]
  have hq : (q : Nat) < max m 1 := lt_of_lt_of_le q.isLt (Nat.le_max_left _ _)
  simp [hq]

/-- `lookup y` answers "present" iff every probe of `y` hits a set bit. -/
theorem lookup_iff_forall_mem (g : E → Fin k → Fin m) (h : List (BloomOp E)) (y : E) :
    (run (idealProbes g) (Bloom.new m k) h).lookup (idealProbes g y) = true
      ↔ ∀ i, g y i ∈ bitSet g h := by
  simp only [lookup, idealProbes, List.all_eq_true, List.mem_ofFn, bitSet, mem_filter, mem_univ,
    true_and]
  constructor
  · intro hall i; exact hall _ ⟨i, rfl⟩
  · rintro hall _ ⟨i, rfl⟩; exact hall i

variable [DecidableEq E]

theorem bitSet_eq_biUnion (g : E → Fin k → Fin m) (h : List (BloomOp E)) :
    bitSet g h = (insertsOf h).toFinset.biUnion (fun x => univ.image (g x)) := by
  ext q
  simp [mem_bitSet]

/-- the bit set does not depend on the probes of an element that is never inserted. -/
theorem bitSet_update (g : E → Fin k → Fin m) (h : List (BloomOp E)) (y : E)
    (hy : y ∉ insertsOf h) (v : Fin k → Fin m) :
    bitSet (Function.update g y v) h = bitSet g h := by
  rw [bitSet_eq_biUnion, bitSet_eq_biUnion]
  apply Finset.biUnion_congr rfl
  intro x hx
  have hne : x ≠ y := by
    rintro rfl; exact hy (List.mem_toFinset.mp hx)
  rw [Function.update_of_ne hne]

/-- at most `k` bits per DISTINCT inserted element. -/
theorem card_bitSet_le (g : E → Fin k → Fin m) (h : List (BloomOp E)) :
    (bitSet g h).card ≤ (insertsOf h).toFinset.card * k := by
  rw [bitSet_eq_biUnion]
  apply Finset.card_biUnion_le_card_mul
  intro x _
  exact le_trans Finset.card_image_le (by simp)

theorem card_bitSet_le_length (g : E → Fin k → Fin m) (h : List (BloomOp E)) :
    (bitSet g h).card ≤ k * (insertsOf h).length := by
  rw [Nat.mul_comm]
  exact le_trans (card_bitSet_le g h) (Nat.mul_le_mul_right _ (List.toFinset_card_le _))

omit [DecidableEq E] in
theorem card_bitSet_le_m (g : E → Fin k → Fin m) (h : List (BloomOp E)) :
    (bitSet g h).card ≤ m := by
  simpa using Finset.card_le_univ (bitSet g h)

end ideal

/-! ### counting -/

/-- "independence" by double counting.  If the set `T g ⊆ F` does not depend on the value of `g`
    at `y`, then among all functions `g : E → F` the event `g y ∈ T g` satisfies
    `#{g | g y ∈ T g} · #F = Σ_g #(T g)`  (i.e. its probability is the mean of `#(T g) / #F`). -/
theorem card_mem_mul_card {E F : Type} [Fintype E] [DecidableEq E] [Fintype F] [DecidableEq F]
    (y : E) (T : (E → F) → Finset F) (hT : ∀ g v, T (Function.update g y v) = T g) :
    (univ.filter (fun g : E → F => g y ∈ T g)).card * Fintype.card F
      = ∑ g : E → F, (T g).card := by
  calc (univ.filter (fun g : E → F => g y ∈ T g)).card * Fintype.card F
      = ((univ.filter (fun g : E → F => g y ∈ T g)) ×ˢ (univ : Finset F)).card := by
        rw [Finset.card_product, Finset.card_univ]
    _ = ((univ : Finset (E → F)).sigma T).card := by
        apply Finset.card_nbij' (fun p => ⟨Function.update p.1 y p.2, p.1 y⟩)
          (fun s => (Function.update s.1 y s.2, s.1 y))
        · rintro ⟨g, c⟩ hp
          have hg : g y ∈ T g := by simpa using hp
          simpa [hT] using hg
        · rintro ⟨g, v⟩ hs
          have hv : v ∈ T g := by simpa using hs
          simpa [hT] using hv
        · rintro ⟨g, c⟩ _
          simp
        · rintro ⟨g, v⟩ _
          simp
    _ = ∑ g : E → F, (T g).card := Finset.card_sigma _ _

/-- regrouping by the value of `B g`. -/
theorem sum_card_fiberwise {G β : Type} [Fintype G] [Fintype β] [DecidableEq β] (B : G → β)
    (f : β → ℕ) :
    ∑ g : G, f (B g) = ∑ b : β, (univ.filter (fun g : G => B g = b)).card * f b := by
  rw [← Finset.sum_fiberwise' (univ : Finset G) B f]
  apply Finset.sum_congr rfl
  intro b _
  simp

end Gostatix.Bloom
