/-
  Gostatix.Proofs.LuaBucket — evaluation lemmas for the extracted cuckoo bucket scripts
  (Generated/LuaScripts.lean: bucket_redis_*, cuckoo_filter_redis_initCuckooFilterRedis) under the
  interpreter of Model/Lua.lean: per block of statements, what the interpreter computes from which
  state; the general numeric-`for` lemma; the hand models (Model/RedisCuckoo.lean) case by case.
-/
import Gostatix.Generated.LuaScripts
import Gostatix.Proofs.LuaCorea
import Gostatix.Model.Equals
namespace Gostatix.LuaBucket
open Gostatix.Lua
open Gostatix.Redis Gostatix.Generated.LuaScripts

/-! ## `isFree` and the guard of `addElement` -/


/-- the Lua value `redis.pcall('GET', k)` gives. -/
def getValue (st : Store) (k : String) : Value :=
  match st k with
  | none => .bool false
  | some (.str b) => .str (latin1 b)
  | some _ => .nil

/-- Lua `tonumber(v)` as a function. -/
def tonumberValue : Value → ToNumber
  | .num n => .num n
  | .str s => luaToNumber s
  | _ => .nil

/-- the first four statements of `isFree`/`addElement` (`argi` = the position of `size` in ARGV). -/
def guardPrefix (argi : Int) : List Stmt := [
  .localDecl ["key"] [.index (.var "KEYS") (.num 1)],
  .localDecl ["lenKey"] [.binop .concat (.var "key") (.str "_len")],
  .localDecl ["bucketLength"] [.call (.field "redis" "pcall") [.str "GET", .var "lenKey"]],
  .localDecl ["size"] [.index (.var "ARGV") (.num argi)]]

def guardStmt : Stmt :=
  .ifThen (.binop .ge (.call (.global "tonumber") [.var "bucketLength"]) (.call (.global "tonumber") [.var "size"])) [
    .ret [.litFalse]
  ] []

/-- the state after the prefix. -/
def guardState (st : Store) (bk : String) (args : List String) (size : Nat) (v : Value) : State :=
  { store := st, heap := [{ arr := [.str bk] }, { arr := args.map .str }],
    env := [("size", .str (decimal size)), ("bucketLength", v),
            ("lenKey", .str (bk ++ "_len")), ("key", .str bk)],
    log := [bk ++ "_len"] }

@[simp] theorem guardState_store (st : Store) (bk : String) (args : List String) (size : Nat) (v : Value) :
    (guardState st bk args size v).store = st := rfl

set_option maxRecDepth 2000 in
theorem guardPrefix_isFree (f : Nat) (st : Store) (bk : String) (size : Nat) :
    execBlock (f + 14) (guardPrefix 1) (initState [bk] [decimal size] st) =
      .ok none (guardState st bk [decimal size] size (getValue st (bk ++ "_len"))) := by
  unfold guardPrefix guardState getValue
  cases h : st (bk ++ "_len") with
  | none => luaA_exec [redisCommand_GET, cmdGET, h]
  | some v => cases v <;> luaA_exec [redisCommand_GET, cmdGET, h]

set_option maxRecDepth 2000 in
theorem guardPrefix_add (f : Nat) (st : Store) (bk e : String) (size : Nat) :
    execBlock (f + 14) (guardPrefix 2) (initState [bk] [e, decimal size] st) =
      .ok none (guardState st bk [e, decimal size] size (getValue st (bk ++ "_len"))) := by
  unfold guardPrefix guardState getValue
  cases h : st (bk ++ "_len") with
  | none => luaA_exec [redisCommand_GET, cmdGET, h]
  | some v => cases v <;> luaA_exec [redisCommand_GET, cmdGET, h]

theorem guard_nil (f : Nat) (st : Store) (bk : String) (args : List String) (size : Nat) (v : Value)
    (hsize : size ≤ numLimit) (hv : tonumberValue v = .nil) :
    execStmt (f + 10) guardStmt (guardState st bk args size v) =
      .error "attempt to compare nil with number" (guardState st bk args size v) := by
  have hsz := luaToNumber_decimal size hsize
  unfold guardStmt guardState
  cases v with
  | str s => 
    simp only [tonumberValue] at hv
    luaA_exec [hsz, hv]; rfl
  | num n => simp [tonumberValue] at hv
  | _ => luaA_exec [hsz]; rfl

theorem guard_num (f : Nat) (st : Store) (bk : String) (args : List String) (size : Nat) (v : Value) (n : Int)
    (hsize : size ≤ numLimit) (hv : tonumberValue v = .num n) :
    execStmt (f + 10) guardStmt (guardState st bk args size v) =
      if (size : Int) ≤ n then .ok (some [.bool false]) (guardState st bk args size v)
      else .ok none (guardState st bk args size v) := by
  have hsz := luaToNumber_decimal size hsize
  unfold guardStmt guardState
  cases v with
  | str s => 
    simp only [tonumberValue] at hv
    by_cases hn : (size : Int) ≤ n <;> luaA_exec [hsz, hv, hn]
  | num m => 
    simp only [tonumberValue, ToNumber.num.injEq] at hv
    subst hv
    by_cases hn : (size : Int) ≤ m <;> luaA_exec [hsz, hn]
  | _ => simp [tonumberValue] at hv

/-- the counter as the hand model's `luaInt` reads it. -/
def counterInt (st : Store) (k : String) : Option Int :=
  match st k with
  | some (.str b) => parseInt (latin1 b)
  | _ => none

/-- Lua `tonumber` and the hand model's `parseInt` read the same thing in `s`. -/
def TonumberAgrees (s : String) : Prop :=
  luaToNumber s = match parseInt s with | some n => .num n | none => .nil

theorem tonumberAgrees_renderInt (n : Int) (h : n.natAbs ≤ numLimit) : TonumberAgrees (renderInt n) := by
  unfold TonumberAgrees; rw [luaToNumber_renderInt n h, parseInt_renderInt]

theorem try_GET_luaInt {α} (st : Store) (k : String) (g : Int → Script α) :
    (Script.try_ (cmdGET k) >>=ₛ fun r => luaInt (r.getD none) >>=ₛ g) st =
      match counterInt st k with
      | some n => g n st
      | none => (st, none) := by
  unfold counterInt
  cases h : st k with
  | none => simp [Script.bind, Script.try_, cmdGET, h, luaInt]
  | some v =>
    cases v with
    | str b => cases hp : parseInt (latin1 b) <;> simp [Script.bind, Script.try_, cmdGET, h, luaInt, hp]
    | _ => simp [Script.bind, Script.try_, cmdGET, h, luaInt]

theorem tonumber_getValue (st : Store) (k : String)
    (hnum : ∀ b, st k = some (.str b) → TonumberAgrees (latin1 b)) :
    tonumberValue (getValue st k) = match counterInt st k with | some n => .num n | none => .nil := by
  unfold counterInt getValue
  cases h : st k with
  | none => rfl
  | some v =>
    cases v with
    | str b => exact hnum b h
    | _ => rfl

/-! ## `addElement` after the guard -/

def addMid : List Stmt := [
  .localDecl ["element"] [.index (.var "ARGV") (.num 1)],
  .localDecl ["pos"] [.call (.field "redis" "pcall") [.str "LPOS", .var "key", .str ""]],
  .ifThen (.binop .eq (.var "pos") (.litFalse)) [
    .callStmt (.field "redis" "pcall") [.str "LPUSH", .var "key", .var "element"]
  ] [
    .callStmt (.field "redis" "pcall") [.str "LSET", .var "key", .call (.global "tonumber") [.var "pos"], .var "element"]
  ]]

def addEnd : List Stmt := [
  .callStmt (.field "redis" "pcall") [.str "INCRBY", .var "lenKey", .num 1],
  .ret [.litTrue]]

theorem addElement_split : bucket_redis_addElement = guardPrefix 2 ++ (guardStmt :: (addMid ++ addEnd)) := rfl

/-- the state after `addMid`: `p` is the value of `pos`, `extra` the tables allocated so far. -/
def addState (st' : Store) (bk e : String) (size : Nat) (v p : Value) (extra : List Table) : State :=
  { store := st',
    heap := [{ arr := [.str bk] }, { arr := [.str e, .str (decimal size)] }] ++ extra,
    env := [("pos", p), ("element", .str e), ("size", .str (decimal size)), ("bucketLength", v),
            ("lenKey", .str (bk ++ "_len")), ("key", .str bk)],
    log := [bk, bk, bk ++ "_len"] }

@[simp] theorem addState_store (st' : Store) (bk e : String) (size : Nat) (v p : Value) (extra : List Table) :
    (addState st' bk e size v p extra).store = st' := rfl

/-- what the hand model's `bucketStoreElement` leaves. -/
def storeElem (st : Store) (bk e : String) : Store :=
  match st bk with
  | none => st.set bk (.list [e])
  | some (.list l) =>
    (match lpos l "" with
     | none => st.set bk (.list (e :: l))
     | some i => st.set bk (.list (l.set i e)))
  | some _ => st

theorem lpos_lt {l : List String} {e : String} {i : Nat} (h : lpos l e = some i) : i < l.length := by
  unfold lpos at h
  split at h
  · rename_i hc
    have := contains_idxOf_lt hc
    simp only [Option.some.injEq] at h; omega
  · simp at h

theorem addMid_none (f : Nat) (st : Store) (bk e : String) (size : Nat) (v : Value) (h : st bk = none) :
    execBlock (f + 13) addMid (guardState st bk [e, decimal size] size v) =
      .ok none (addState (storeElem st bk e) bk e size v (.bool false) []) := by
  unfold addMid guardState addState storeElem
  luaA_exec [redisCommand_LPOS, redisCommand_LPUSH1, cmdLPOS, cmdLPUSH, h]

theorem addMid_push (f : Nat) (st : Store) (bk e : String) (size : Nat) (v : Value) (l : List String)
    (h : st bk = some (.list l)) (hp : lpos l "" = none) :
    execBlock (f + 13) addMid (guardState st bk [e, decimal size] size v) =
      .ok none (addState (storeElem st bk e) bk e size v (.bool false) []) := by
  unfold addMid guardState addState storeElem
  luaA_exec [redisCommand_LPOS, redisCommand_LPUSH1, cmdLPOS, cmdLPUSH, h, hp]

theorem addMid_set (f : Nat) (st : Store) (bk e : String) (size : Nat) (v : Value) (l : List String)
    (i : Nat) (h : st bk = some (.list l)) (hp : lpos l "" = some i) (hi : i ≤ numLimit) :
    execBlock (f + 13) addMid (guardState st bk [e, decimal size] size v) =
      .ok none (addState (storeElem st bk e) bk e size v (.num i) [{ hash := [(.str "ok", .str "OK")] }]) := by
  unfold addMid guardState addState storeElem
  have h1 := goAtoi_renderInt i (by simpa using hi)
  have h2 := lpos_lt hp
  luaA_exec [redisCommand_LPOS, redisCommand_LSET, cmdLPOS, h, hp, h1, intArg, resolveIndex, h2, cmdLSET]

theorem addMid_wrongtype (f : Nat) (st : Store) (bk e : String) (size : Nat) (v : Value)
    (h : listAt st bk = none) :
    execBlock (f + 13) addMid (guardState st bk [e, decimal size] size v) =
      .error "Lua redis lib command arguments must be strings or integers"
        { guardState st bk [e, decimal size] size v with
          env := ("pos", .nil) :: ("element", .str e) :: (guardState st bk [e, decimal size] size v).env,
          log := [bk, bk ++ "_len"] } := by
  unfold addMid guardState
  unfold listAt at h
  cases hb : st bk with
  | none => simp [hb] at h
  | some w =>
    cases w with
    | list l => simp [hb] at h
    | _ => luaA_exec [redisCommand_LPOS, cmdLPOS, hb]

/-! ### `INCRBY` -/

/-- miniredis' `INCRBY` (value read with `Atoi`) and the hand model's (canonical spellings only)
    do the same on the stored string `s` with the increment `d`. -/
def IncrAgrees (s : String) (d : Int) : Prop :=
  match parseIntStrict s with
  | some n => goAtoi s = .num n ∧ (n + d).natAbs ≤ numLimit
  | none => goAtoi s = .nan

theorem incrAgrees_renderInt (n d : Int) (h1 : n.natAbs ≤ numLimit) (h2 : (n + d).natAbs ≤ numLimit) :
    IncrAgrees (renderInt n) d := by
  unfold IncrAgrees; rw [parseIntStrict_renderInt]; exact ⟨goAtoi_renderInt n h1, h2⟩

/-- the state after the final `redis.pcall('INCRBY', lenKey, d)`. -/
theorem cmdINCRBYmr_agrees (k : String) (d : Int) (st : Store)
    (h : ∀ b, st k = some (.str b) → IncrAgrees (latin1 b) d) :
    (∃ n, cmdINCRBYmr k d st = .ok (cmdINCRBY k d st).1 (.int n)) ∨
    (∃ m, cmdINCRBYmr k d st = .error m ∧ (cmdINCRBY k d st).1 = st) := by
  unfold cmdINCRBYmr cmdINCRBY
  cases hk : st k with
  | none => exact Or.inl ⟨d, rfl⟩
  | some v =>
    cases v with
    | str b =>
      have hb := h b hk
      unfold IncrAgrees at hb
      cases hp : parseIntStrict (latin1 b) with
      | none =>
        rw [hp] at hb
        simp only [hb, hp]
        exact Or.inr ⟨_, rfl, trivial⟩
      | some n =>
        rw [hp] at hb
        simp only [hb.1, hp, if_neg (Nat.not_lt.mpr hb.2)]
        exact Or.inl ⟨_, rfl⟩
    | _ => exact Or.inr ⟨_, rfl, rfl⟩

theorem addEnd_exec (f : Nat) (st' : Store) (bk e : String) (size : Nat) (v p : Value) (extra : List Table)
    (h : ∀ b, st' (bk ++ "_len") = some (.str b) → IncrAgrees (latin1 b) 1) :
    execBlock (f + 12) addEnd (addState st' bk e size v p extra) =
      .ok (some [.bool true])
        { addState (cmdINCRBY (bk ++ "_len") 1 st').1 bk e size v p extra with
          log := [bk ++ "_len", bk, bk, bk ++ "_len"] } := by
  unfold addEnd addState
  have h1 : renderInt 1 = "1" := by decide
  have h2 : goAtoi "1" = .num 1 := by decide
  rcases cmdINCRBYmr_agrees _ 1 st' h with ⟨n, hn⟩ | ⟨m, hm, hst⟩
  · luaA_exec [redisCommand_INCRBY, intArg, h1, h2, hn]
  · luaA_exec [redisCommand_INCRBY, intArg, h1, h2, hm, hst]

/-! ### the hand model of `addElement`, case by case -/

theorem bucketStoreElement_eq (st : Store) (bk e : String) :
    bucketStoreElement bk e st = (storeElem st bk e, some ()) := by
  unfold bucketStoreElement storeElem
  cases h : st bk with
  | none => simp [Script.bind, Script.try_, cmdLPOS, cmdLPUSH, h, Script.pure]
  | some w =>
    cases w with
    | list l =>
      cases hp : lpos l "" with
      | none => simp [Script.bind, Script.try_, cmdLPOS, cmdLPUSH, h, hp, Script.pure]
      | some i =>
        have := lpos_lt hp
        simp [Script.bind, Script.try_, cmdLPOS, cmdLSET, h, hp, Script.pure, this]
    | _ => simp [Script.bind, Script.try_, cmdLPOS, h, Script.pure]

theorem bucketAddScript_eq (st : Store) (bk e : String) (size : Nat) :
    bucketAddScript bk size e st =
      match counterInt st (bk ++ "_len") with
      | none => (st, none)
      | some n =>
        if (size : Int) ≤ n then (st, some false)
        else ((cmdINCRBY (bk ++ "_len") 1 (storeElem st bk e)).1, some true) := by
  unfold bucketAddScript bucketLenKey
  rw [try_GET_luaInt]
  cases counterInt st (bk ++ "_len") with
  | none => rfl
  | some n =>
    simp only [ge_iff_le]
    by_cases hn : (size : Int) ≤ n
    · simp only [hn, if_true]; rfl
    · simp only [hn, if_false]
      simp only [Script.bind, bucketStoreElement_eq, Script.try_, Script.pure]

theorem storeElem_other (st : Store) (bk e k : String) (hk : k ≠ bk) : storeElem st bk e k = st k := by
  unfold storeElem
  cases st bk with
  | none => exact Store.set_ne _ _ hk
  | some w =>
    cases w with
    | list l => dsimp only; cases lpos l "" <;> exact Store.set_ne _ _ hk
    | _ => rfl

/-! ## `removeElement` -/

def removeMain : List Stmt := [
  .localDecl ["key"] [.index (.var "KEYS") (.num 1)],
  .localDecl ["lenKey"] [.binop .concat (.var "key") (.str "_len")],
  .localDecl ["element"] [.index (.var "ARGV") (.num 1)],
  .localDecl ["pos"] [.call (.field "redis" "call") [.str "LPOS", .var "key", .var "element"]],
  .callStmt (.field "redis" "call") [.str "LSET", .var "key", .var "pos", .str ""]]

def removeEnd : List Stmt := [
  .callStmt (.field "redis" "pcall") [.str "INCRBY", .var "lenKey", .unop .neg (.num 1)],
  .ret [.litTrue]]

theorem removeElement_split : bucket_redis_removeElement = removeMain ++ removeEnd := rfl

/-- states of `removeElement`: `env` = the locals declared so far. -/
def remState (st' : Store) (bk e : String) (env : List (String × Value)) (extra : List Table)
    (log : List String) : State :=
  { store := st', heap := [{ arr := [.str bk] }, { arr := [.str e] }] ++ extra, env := env, log := log }

@[simp] theorem remState_store (st' : Store) (bk e : String) (env : List (String × Value))
    (extra : List Table) (log : List String) : (remState st' bk e env extra log).store = st' := rfl

def remEnv (bk e : String) : List (String × Value) :=
  [("element", .str e), ("lenKey", .str (bk ++ "_len")), ("key", .str bk)]

theorem removeMain_wrongtype (f : Nat) (st : Store) (bk e : String) (h : listAt st bk = none) :
    execBlock (f + 15) removeMain (initState [bk] [e] st) =
      .error msgWrongType (remState st bk e (remEnv bk e) [] [bk]) := by
  unfold removeMain remState remEnv
  unfold listAt at h
  cases hb : st bk with
  | none => simp [hb] at h
  | some w =>
    cases w with
    | list l => simp [hb] at h
    | _ => luaA_exec [redisCommand_LPOS, cmdLPOS, hb]

theorem removeMain_none (f : Nat) (st : Store) (bk e : String) (h : st bk = none) :
    execBlock (f + 15) removeMain (initState [bk] [e] st) =
      .error "Lua redis lib command arguments must be strings or integers"
        (remState st bk e (("pos", .bool false) :: remEnv bk e) [] [bk]) := by
  unfold removeMain remState remEnv
  luaA_exec [redisCommand_LPOS, cmdLPOS, h]

theorem removeMain_absent (f : Nat) (st : Store) (bk e : String) (l : List String)
    (h : st bk = some (.list l)) (hp : lpos l e = none) :
    execBlock (f + 15) removeMain (initState [bk] [e] st) =
      .error "Lua redis lib command arguments must be strings or integers"
        (remState st bk e (("pos", .bool false) :: remEnv bk e) [] [bk]) := by
  unfold removeMain remState remEnv
  luaA_exec [redisCommand_LPOS, cmdLPOS, h, hp]

theorem removeMain_found (f : Nat) (st : Store) (bk e : String) (l : List String) (i : Nat)
    (h : st bk = some (.list l)) (hp : lpos l e = some i) (hi : i ≤ numLimit) :
    execBlock (f + 15) removeMain (initState [bk] [e] st) =
      .ok none (remState (st.set bk (.list (l.set i ""))) bk e (("pos", .num i) :: remEnv bk e)
        [{ hash := [(.str "ok", .str "OK")] }] [bk, bk]) := by
  unfold removeMain remState remEnv
  have h1 := goAtoi_renderInt i (by simpa using hi)
  have h2 := lpos_lt hp
  luaA_exec [redisCommand_LPOS, redisCommand_LSET, cmdLPOS, h, hp, h1, intArg, resolveIndex, h2, cmdLSET]

theorem removeEnd_exec (f : Nat) (st' : Store) (bk e : String) (p : Value) (extra : List Table)
    (log : List String)
    (h : ∀ b, st' (bk ++ "_len") = some (.str b) → IncrAgrees (latin1 b) (-1)) :
    execBlock (f + 12) removeEnd (remState st' bk e (("pos", p) :: remEnv bk e) extra log) =
      .ok (some [.bool true])
        (remState (cmdINCRBY (bk ++ "_len") (-1) st').1 bk e (("pos", p) :: remEnv bk e) extra
          ((bk ++ "_len") :: log)) := by
  unfold removeEnd remState remEnv
  have h1 : renderInt (-1) = "-1" := by decide
  have h2 : goAtoi "-1" = .num (-1) := by decide
  rcases cmdINCRBYmr_agrees _ (-1) st' h with ⟨n, hn⟩ | ⟨m, hm, hst⟩
  · luaA_exec [redisCommand_INCRBY, intArg, h1, h2, hn]
  · luaA_exec [redisCommand_INCRBY, intArg, h1, h2, hm, hst]

/-- the error message of an aborted `removeElement`. -/
def removeError (st : Store) (bk : String) : String :=
  if listAt st bk = none then msgWrongType
  else "Lua redis lib command arguments must be strings or integers"

theorem bucketRemove_eq (st : Store) (bk e : String) :
    bucketRemove bk e st =
      match st bk with
      | some (.list l) =>
        (match lpos l e with
         | some i => ((cmdINCRBY (bk ++ "_len") (-1) (st.set bk (.list (l.set i "")))).1, some true)
         | none => (st, none))
      | _ => (st, none) := by
  unfold bucketRemove bucketLenKey
  cases h : st bk with
  | none => simp [Script.bind, cmdLPOS, h, Script.fail]
  | some w =>
    cases w with
    | list l =>
      cases hp : lpos l e with
      | none => simp [Script.bind, cmdLPOS, h, hp, Script.fail]
      | some i =>
        have := lpos_lt hp
        simp [Script.bind, Script.try_, cmdLPOS, cmdLSET, h, hp, Script.pure, this]
    | _ => simp [Script.bind, cmdLPOS, h]

/-! ## `exists` -/

/-- the outcome that corresponds to the hand model's result (`none` = a nil reply, which the Go
    side's `.Int64()` turns into an error). -/
def lookupOutcome : Option Int → Outcome
  | some i => .reply (.int i)
  | none => .reply .nil

theorem exists_exec (f : Nat) (st : Store) (bk e : String) :
    resultOf (execBlock (f + 20) bucket_redis_exists (initState [bk] [e] st)) =
      ((bucketLookupScript bk e st).1, lookupOutcome (bucketLookupScript bk e st).2) := by
  unfold bucket_redis_exists bucketLookupScript lookupOutcome
  cases h : st bk with
  | none =>
    simp only [Script.bind, Script.try_, cmdLPOS, h, Script.pure]
    luaA_exec [redisCommand_LPOS, cmdLPOS, h]
  | some w =>
    cases w with
    | list l =>
      cases hp : lpos l e with
      | none =>
        simp only [Script.bind, Script.try_, cmdLPOS, h, hp, Script.pure]
        luaA_exec [redisCommand_LPOS, cmdLPOS, h, hp]
      | some i =>
        simp only [Script.bind, Script.try_, cmdLPOS, h, hp, Script.pure]
        luaA_exec [redisCommand_LPOS, cmdLPOS, h, hp]
    | _ =>
      simp only [Script.bind, Script.try_, cmdLPOS, h, Script.fail]
      luaA_exec [redisCommand_LPOS, cmdLPOS, h]

/-! ## the numeric `for` -/

/-- `n` iterations of a loop body given as a function of the loop variable and the state,
    starting at `i`, step 1; a body that returns (or fails) ends the loop. -/
def loopModel (bodyM : Int → State → Res (Option (List Value))) :
    Nat → Int → State → Res (Option (List Value))
  | 0, _, s => .ok none s
  | n + 1, i, s =>
    match bodyM i s with
    | .ok none s' => loopModel bodyM n (i + 1) s'
    | r => r

/-- General loop lemma: if on every state satisfying `Inv` the body of `for x = i, limit do body end`
    (run in its own scope with `x` declared, with any fuel `≥ c`) computes `bodyM j`, and `bodyM`
    preserves `Inv` when it does not return, then the loop from `i` to `i + n - 1` with fuel
    `≥ n + c + 1` computes `loopModel bodyM n i`. -/
theorem numForLoop_eq (x : String) (body : List Stmt)
    (bodyM : Int → State → Res (Option (List Value))) (Inv : State → Prop) (c : Nat)
    (hbody : ∀ g, c ≤ g → ∀ j s, Inv s →
      inScope (M.bind (declare x (.num j)) fun _ => execBlock g body) s = bodyM j s)
    (hinv : ∀ j s s', Inv s → bodyM j s = .ok none s' → Inv s')
    (n : Nat) (i limit : Int) (hlimit : limit = i + n - 1) (s : State) (hs : Inv s)
    (fuel : Nat) (hfuel : n + c + 1 ≤ fuel) :
    numForLoop fuel x i limit 1 body s = loopModel bodyM n i s := by
  induction n generalizing i s fuel with
  | zero =>
    obtain ⟨fuel, rfl⟩ : ∃ g, fuel = g + 1 := ⟨fuel - 1, by omega⟩
    have hc : ¬ ((0 < (1 : Int) ∧ i ≤ limit) ∨ ((1 : Int) ≤ 0 ∧ limit ≤ i)) := by omega
    simp only [numForLoop, hc, if_false, loopModel]; rfl
  | succ n ih =>
    obtain ⟨fuel, rfl⟩ : ∃ g, fuel = g + 1 := ⟨fuel - 1, by omega⟩
    have hc : (0 < (1 : Int) ∧ i ≤ limit) ∨ ((1 : Int) ≤ 0 ∧ limit ≤ i) := by omega
    simp only [numForLoop, hc, if_true, loopModel, bind, M.bind]
    rw [hbody fuel (by omega) i s hs]
    cases hb : bodyM i s with
    | ok a s' =>
      cases a with
      | none =>
        simp only []
        exact ih (i + 1) (by omega) s' (hinv i s s' hs hb) fuel (by omega)
      | some vs => rfl
    | _ => rfl

/-! ## `equals` -/

def equalsPrefix : List Stmt := [
  .localDecl ["key1"] [.index (.var "KEYS") (.num 1)],
  .localDecl ["key2"] [.index (.var "KEYS") (.num 2)],
  .localDecl ["size"] [.index (.var "ARGV") (.num 1)],
  .localDecl ["vals1"] [.call (.field "redis" "pcall") [.str "LRANGE", .var "key1", .num 0, .unop .neg (.num 1)]],
  .localDecl ["vals2"] [.call (.field "redis" "pcall") [.str "LRANGE", .var "key2", .num 0, .unop .neg (.num 1)]]]

def equalsBody : List Stmt := [
  .ifThen (.binop .ne (.index (.var "vals1") (.var "i")) (.index (.var "vals2") (.var "i"))) [
    .ret [.litFalse]
  ] []]

def equalsFor : Stmt := .numFor "i" (.num 1) (.call (.global "tonumber") [.var "size"]) none equalsBody

theorem equals_split : bucket_redis_equals = equalsPrefix ++ [equalsFor, .ret [.litTrue]] := rfl

/-- the state when the loop starts: the two `LRANGE` replies are the tables 2 and 3. -/
def equalsState (st : Store) (bk1 bk2 : String) (size : Nat) (l1 l2 : List String) : State :=
  { store := st,
    heap := [{ arr := [.str bk1, .str bk2] }, { arr := [.str (decimal size)] },
             { arr := l1.map .str }, { arr := l2.map .str }],
    env := [("vals2", .table 3), ("vals1", .table 2), ("size", .str (decimal size)),
            ("key2", .str bk2), ("key1", .str bk1)],
    log := [bk2, bk1] }

theorem redisCommand_LRANGE_all (st : Store) (k : String) (l : List String) (h : listAt st k = some l) :
    redisCommand "LRANGE" [k, "0", "-1"] st = .ok st (.list l) := by
  have h0 : goAtoi "0" = .num 0 := by decide
  have h1 : goAtoi "-1" = .num (-1) := by decide
  rw [redisCommand_LRANGE]
  unfold listAt at h
  cases hk : st k with
  | none =>
    rw [hk] at h; simp only [Option.some.injEq] at h; subst h
    simp [intArg, h0, h1, hk, liftCmd, cmdLRANGE]
  | some w =>
    cases w with
    | list l' =>
      rw [hk] at h; simp only [Option.some.injEq] at h; subst h
      simp [intArg, h0, h1, hk, liftCmd, cmdLRANGE]
    | _ => rw [hk] at h; simp at h

theorem equalsPrefix_exec (f : Nat) (st : Store) (bk1 bk2 : String) (size : Nat) (l1 l2 : List String)
    (h1 : listAt st bk1 = some l1) (h2 : listAt st bk2 = some l2) :
    execBlock (f + 15) equalsPrefix (initState [bk1, bk2] [decimal size] st) =
      .ok none (equalsState st bk1 bk2 size l1 l2) := by
  unfold equalsPrefix equalsState
  have e0 : renderInt 0 = "0" := by decide
  have e1 : renderInt (-1) = "-1" := by decide
  luaA_exec [e0, e1, redisCommand_LRANGE_all st bk1 l1 h1, redisCommand_LRANGE_all st bk2 l2 h2]

theorem equalsFor_start (f : Nat) (st : Store) (bk1 bk2 : String) (size : Nat) (l1 l2 : List String)
    (hsize : size ≤ numLimit) :
    execStmt (f + 10) equalsFor (equalsState st bk1 bk2 size l1 l2) =
      numForLoop (f + 9) "i" 1 size 1 equalsBody (equalsState st bk1 bk2 size l1 l2) := by
  have hsz := luaToNumber_decimal size hsize
  unfold equalsFor equalsState
  luaA_exec [hsz]

/-- entry `j` (1-based, any integer) of the Lua table an `LRANGE` reply becomes. -/
def tableEntry (l : List String) (j : Int) : Value := Table.get { arr := l.map .str } (.num j)

/-- one iteration of the loop of `equals`. -/
def equalsBodyM (l1 l2 : List String) (j : Int) (s : State) : Res (Option (List Value)) :=
  if tableEntry l1 j = tableEntry l2 j then .ok none s else .ok (some [.bool false]) s

macro "luaA_exec_tbl" "[" ts:Lean.Parser.Tactic.simpLemma,* "]" : tactic =>
  `(tactic| simp [execBlock, execStmt, evalList, evalMulti, evalExpr, initState,
    bind, M.bind, pure, M.pure, readVar, envGet, indexValue, getTable, declareAll, declare, M.modify,
    Lua.binop, Lua.unop, strOrNum, callFn, isLocal, redisCall, cmdArgs,
    keysId, argvId, liftCmd, replyToLua, Lua.compare, inScope, Value.truthy, M.error, M.unsupported,
    Value.typeName, allocTable, $ts,*])

theorem equalsBody_exec (g : Nat) (hg : 8 ≤ g) (st : Store) (bk1 bk2 : String) (size : Nat)
    (l1 l2 : List String) (j : Int) :
    inScope (M.bind (declare "i" (.num j)) fun _ => execBlock g equalsBody)
        (equalsState st bk1 bk2 size l1 l2) =
      equalsBodyM l1 l2 j (equalsState st bk1 bk2 size l1 l2) := by
  obtain ⟨f, rfl⟩ : ∃ f, g = f + 8 := ⟨g - 8, by omega⟩
  unfold equalsBody equalsState equalsBodyM tableEntry
  by_cases h : Table.get { arr := l1.map .str } (.num j) = Table.get { arr := l2.map .str } (.num j)
  · luaA_exec_tbl [h]
  · luaA_exec_tbl [h]

theorem getD_map_str (l : List String) (k : Nat) :
    (l.map Value.str).getD k .nil = match l[k]? with | some s => .str s | none => .nil := by
  rw [List.getD_eq_getElem?_getD, List.getElem?_map]
  cases l[k]? <;> rfl

theorem tableEntry_succ (l : List String) (k : Nat) :
    tableEntry l ((k : Int) + 1) =
      if k + 1 < maxArrayIndex then (match l[k]? with | some s => .str s | none => .nil) else .nil := by
  unfold tableEntry Table.get arrayPos
  by_cases h : k + 1 < maxArrayIndex
  · have h' : (1 : Int) ≤ (k : Int) + 1 ∧ (k : Int) + 1 < (maxArrayIndex : Int) := by omega
    have h2 : ((k : Int) + 1).toNat - 1 = k := by omega
    simp only [h', and_self, if_true, h, h2, getD_map_str]
  · have h' : ¬ ((1 : Int) ≤ (k : Int) + 1 ∧ (k : Int) + 1 < (maxArrayIndex : Int)) := by omega
    simp only [h', if_false, h]; rfl

theorem tableEntry_eq_iff (l1 l2 : List String) (k : Nat)
    (h : k + 1 < maxArrayIndex ∨ (l1.length < maxArrayIndex ∧ l2.length < maxArrayIndex)) :
    tableEntry l1 ((k : Int) + 1) = tableEntry l2 ((k : Int) + 1) ↔ l1[k]? = l2[k]? := by
  rw [tableEntry_succ, tableEntry_succ]
  by_cases hk : k + 1 < maxArrayIndex
  · simp only [hk, if_true]
    cases l1[k]? <;> cases l2[k]? <;> simp
  · simp only [hk, if_false, true_iff]
    rcases h with h | ⟨h1, h2⟩
    · exact absurd h hk
    · rw [List.getElem?_eq_none (by omega), List.getElem?_eq_none (by omega)]

theorem equals_loopModel (l1 l2 : List String) (s : State) (bound : Nat)
    (hidx : ∀ k, k < bound →
      (tableEntry l1 ((k : Int) + 1) = tableEntry l2 ((k : Int) + 1) ↔ l1[k]? = l2[k]?))
    (n k : Nat) (h : k + n ≤ bound) :
    loopModel (equalsBodyM l1 l2) n ((k : Int) + 1) s =
      match Equals.forFrom (Equals.luaIdxEq l1 l2) k n with
      | some true => .ok none s
      | _ => .ok (some [.bool false]) s := by
  induction n generalizing k with
  | zero => rfl
  | succ n ih =>
    unfold loopModel Equals.forFrom equalsBodyM Equals.luaIdxEq
    by_cases he : l1[k]? = l2[k]?
    · have := (hidx k (by omega)).mpr he
      simp only [this, if_true, he, decide_true]
      have := ih (k + 1) (by omega)
      rw [show ((k + 1 : Nat) : Int) + 1 = (k : Int) + 1 + 1 from by omega] at this
      exact this
    · have : ¬ tableEntry l1 ((k : Int) + 1) = tableEntry l2 ((k : Int) + 1) :=
        fun h => he ((hidx k (by omega)).mp h)
      simp only [this, if_false, he, decide_false]

/-- the reply for the Boolean a script returns: `true` is the integer 1, `false` is nil. -/
def boolReply (b : Bool) : Reply := if b then .int 1 else .nil

/-- the outcome that corresponds to the result of a hand model `Script Bool`: an abort is a Lua
    error with the given message. -/
def boolOutcome (err : String) : Option Bool → Outcome
  | some b => .reply (boolReply b)
  | none => .error err

theorem forFrom_luaIdxEq_ne_none (l1 l2 : List String) (k n : Nat) :
    Equals.forFrom (Equals.luaIdxEq l1 l2) k n ≠ none := by
  induction n generalizing k with
  | zero => simp [Equals.forFrom]
  | succ n ih =>
    unfold Equals.forFrom Equals.luaIdxEq
    by_cases he : l1[k]? = l2[k]?
    · simp only [he, decide_true]; exact ih (k + 1)
    · simp [he]

theorem equals_exec (fuel : Nat) (st : Store) (bk1 bk2 : String) (size : Nat) (l1 l2 : List String)
    (hfuel : size + 16 ≤ fuel) (hsize : size ≤ numLimit)
    (h1 : listAt st bk1 = some l1) (h2 : listAt st bk2 = some l2)
    (hidx : size < maxArrayIndex ∨ (l1.length < maxArrayIndex ∧ l2.length < maxArrayIndex)) :
    resultOf (execBlock fuel bucket_redis_equals (initState [bk1, bk2] [decimal size] st)) =
      (st, boolOutcome "" (Equals.forN size (Equals.luaIdxEq l1 l2))) := by
  obtain ⟨f, rfl⟩ : ∃ f, fuel = f + 16 := ⟨fuel - 16, by omega⟩
  have hf : size ≤ f := by omega
  rw [equals_split, execBlock_append _ _ (f + 11) 5 rfl, equalsPrefix_exec _ st bk1 bk2 size l1 l2 h1 h2]
  simp only []
  rw [execBlock_cons, equalsFor_start _ st bk1 bk2 size l1 l2 hsize]
  rw [numForLoop_eq "i" equalsBody (equalsBodyM l1 l2)
    (fun s => s = equalsState st bk1 bk2 size l1 l2) 8
    (fun g hg j s hs => by subst hs; exact equalsBody_exec g hg st bk1 bk2 size l1 l2 j)
    (fun j s s' hs hb => by
      subst hs
      unfold equalsBodyM at hb
      split at hb
      · simp only [Res.ok.injEq, true_and] at hb; exact hb.symm
      · simp at hb)
    size 1 size (by omega) _ rfl (f + 9) (by omega)]
  have hm := equals_loopModel l1 l2 (equalsState st bk1 bk2 size l1 l2) size
    (fun k hk => tableEntry_eq_iff l1 l2 k (by
      rcases hidx with h | h
      · exact Or.inl (by omega)
      · exact Or.inr h)) size 0 (by omega)
  rw [show ((0 : Nat) : Int) + 1 = 1 from rfl] at hm
  rw [hm]
  unfold Equals.forN
  have hne := forFrom_luaIdxEq_ne_none l1 l2 0 size
  cases hr : Equals.forFrom (Equals.luaIdxEq l1 l2) 0 size with
  | none => exact absurd hr hne
  | some b =>
    cases b with
    | true => 
      simp only [execBlock_cons, execStmt_ret_true, resultOf_ret_true]
      rfl
    | false => rfl

/-! ## `initCuckooFilterRedis` -/

def initPrefix : List Stmt := [
  .localDecl ["key"] [.index (.var "KEYS") (.num 1)],
  .localDecl ["size"] [.index (.var "ARGV") (.num 1)],
  .localDecl ["bucketSize"] [.index (.var "ARGV") (.num 2)],
  .callStmt (.field "redis" "call") [.str "DEL", .var "key"]]

def initBody : List Stmt := [
  .callStmt (.field "redis" "call") [.str "LPUSH", .var "key", .index (.var "KEYS") (.var "i")]]

def initFor : Stmt :=
  .numFor "i" (.num 2) (.binop .add (.call (.global "tonumber") [.var "size"]) (.num 1)) none initBody

theorem init_split :
    cuckoo_filter_redis_initCuckooFilterRedis = initPrefix ++ [initFor, .ret [.litTrue]] := rfl

/-- the states of the loop: only the store and the log change. -/
def initState' (st' : Store) (key : String) (bks : List String) (a1 a2 : String) (log : List String) :
    State :=
  { store := st',
    heap := [{ arr := .str key :: bks.map .str }, { arr := [.str a1, .str a2] }],
    env := [("bucketSize", .str a2), ("size", .str a1), ("key", .str key)],
    log := log }

theorem initPrefix_exec (f : Nat) (st : Store) (key : String) (bks : List String) (a1 a2 : String) :
    execBlock (f + 14) initPrefix (initState (key :: bks) [a1, a2] st) =
      .ok none (initState' (st.del key) key bks a1 a2 [key]) := by
  unfold initPrefix initState'
  luaA_exec [redisCommand_DEL1]

theorem initFor_start (f : Nat) (st' : Store) (key : String) (bks : List String) (n : Nat) (a2 : String)
    (log : List String) (hn : n + 1 ≤ numLimit) :
    execStmt (f + 10) initFor (initState' st' key bks (decimal n) a2 log) =
      numForLoop (f + 9) "i" 2 ((n : Int) + 1) 1 initBody (initState' st' key bks (decimal n) a2 log) := by
  have hsz := luaToNumber_decimal n (by omega)
  have hc : ¬ (((n : Int) + 1).natAbs > numLimit) := by omega
  unfold initFor initState'
  luaA_exec [hsz, arith, checkNum, hc]

theorem cmdLPUSH1_ok (st : Store) (k v : String) (l : List String) (h : listAt st k = some l) :
    cmdLPUSH k [v] st = (st.set k (.list (v :: l)), some ()) := by
  unfold listAt at h
  unfold cmdLPUSH
  cases hk : st k with
  | none => rw [hk] at h; simp only [Option.some.injEq] at h; subst h; simp
  | some w =>
    cases w with
    | list l' => rw [hk] at h; simp only [Option.some.injEq] at h; subst h; simp
    | _ => rw [hk] at h; simp at h

/-- one iteration of the loop of `initCuckooFilterRedis`: `LPUSH key KEYS[j]`. -/
def initBodyM (key : String) (bks : List String) (j : Int) (s : State) : Res (Option (List Value)) :=
  match Table.get { arr := .str key :: bks.map .str } (.num j) with
  | .str v =>
    .ok none { s with store := s.store.set key (.list (v :: (listAt s.store key).getD [])),
                      log := key :: s.log }
  | _ => .error "Lua redis lib command arguments must be strings or integers"
      { s with env := ("i", .num j) :: s.env }

theorem strTable_entry (l : List String) (j : Int) :
    Table.get { arr := l.map .str } (.num j) = .nil ∨
      ∃ v, Table.get { arr := l.map .str } (.num j) = .str v := by
  unfold Table.get arrayPos
  split
  · rename_i i hi
    rw [getD_map_str]
    cases l[i]? with
    | none => exact Or.inl rfl
    | some v => exact Or.inr ⟨v, rfl⟩
  · exact Or.inl rfl

theorem initBody_exec (g : Nat) (hg : 8 ≤ g) (st' : Store) (key : String) (bks : List String)
    (a1 a2 : String) (log : List String) (l : List String) (hl : listAt st' key = some l) (j : Int) :
    inScope (M.bind (declare "i" (.num j)) fun _ => execBlock g initBody)
        (initState' st' key bks a1 a2 log) =
      initBodyM key bks j (initState' st' key bks a1 a2 log) := by
  obtain ⟨f, rfl⟩ : ∃ f, g = f + 8 := ⟨g - 8, by omega⟩
  unfold initBody initState' initBodyM
  have hcases := strTable_entry (key :: bks) j
  simp only [List.map_cons] at hcases
  rcases hcases with hv | ⟨v, hv⟩
  · luaA_exec_tbl [hv]
  · luaA_exec_tbl [hv, redisCommand_LPUSH1, cmdLPUSH1_ok st' key v l hl, hl]

/-- the store after `LPUSH key bk` for every `bk` of `bks`, in order. -/
def pushAll (key : String) (bks : List String) (st : Store) : Store :=
  bks.foldl (fun st bk => st.set key (.list (bk :: (listAt st key).getD []))) st

theorem keysTable_entry (key : String) (bks : List String) (k : Nat) (hk : k < bks.length)
    (hlen : bks.length + 1 < maxArrayIndex) :
    Table.get { arr := .str key :: bks.map .str } (.num ((k : Int) + 2)) = .str bks[k] := by
  unfold Table.get arrayPos
  have h' : (1 : Int) ≤ (k : Int) + 2 ∧ (k : Int) + 2 < (maxArrayIndex : Int) := by omega
  have h2 : ((k : Int) + 2).toNat - 1 = k + 1 := by omega
  simp only [h', and_self, if_true, h2, List.getD_cons_succ, getD_map_str]
  rw [List.getElem?_eq_getElem hk]

theorem listAt_set_self (st : Store) (k : String) (l : List String) :
    listAt (st.set k (.list l)) k = some l := by
  unfold listAt; rw [Store.set_self]

theorem init_loopModel (key : String) (bks : List String) (a1 a2 : String)
    (hlen : bks.length + 1 < maxArrayIndex) (m k : Nat) (hk : k + m = bks.length)
    (st' : Store) (log : List String) :
    ∃ log', loopModel (initBodyM key bks) m ((k : Int) + 2) (initState' st' key bks a1 a2 log) =
      .ok none (initState' (pushAll key (bks.drop k) st') key bks a1 a2 log') := by
  induction m generalizing k st' log with
  | zero =>
    refine ⟨log, ?_⟩
    have : bks.drop k = [] := List.drop_eq_nil_of_le (by omega)
    rw [this]; rfl
  | succ m ih =>
    have hk' : k < bks.length := by omega
    obtain ⟨log', hlog⟩ := ih (k + 1) (by omega)
      (st'.set key (.list (bks[k] :: (listAt st' key).getD []))) (key :: log)
    refine ⟨log', ?_⟩
    unfold loopModel initBodyM
    rw [keysTable_entry key bks k hk' hlen]
    simp only []
    rw [show ((k + 1 : Nat) : Int) + 2 = (k : Int) + 2 + 1 from by omega] at hlog
    rw [List.drop_eq_getElem_cons hk']
    exact hlog

/-- the loop invariant of `initCuckooFilterRedis`. -/
def InitInv (key : String) (bks : List String) (a1 a2 : String) (s : State) : Prop :=
  ∃ st' log, s = initState' st' key bks a1 a2 log ∧ listAt st' key ≠ none

theorem initBody_inv_exec (key : String) (bks : List String) (a1 a2 : String) (g : Nat) (hg : 8 ≤ g)
    (j : Int) (s : State) (hs : InitInv key bks a1 a2 s) :
    inScope (M.bind (declare "i" (.num j)) fun _ => execBlock g initBody) s = initBodyM key bks j s := by
  obtain ⟨st', log, rfl, hl⟩ := hs
  cases hl' : listAt st' key with
  | none => exact absurd hl' hl
  | some l => exact initBody_exec g hg st' key bks a1 a2 log l hl' j

theorem initBodyM_inv (key : String) (bks : List String) (a1 a2 : String) (j : Int) (s s' : State)
    (hs : InitInv key bks a1 a2 s) (hb : initBodyM key bks j s = .ok none s') :
    InitInv key bks a1 a2 s' := by
  obtain ⟨st', log, rfl, hl⟩ := hs
  unfold initBodyM at hb
  split at hb
  · simp only [Res.ok.injEq, true_and] at hb
    subst hb
    refine ⟨_, _, rfl, ?_⟩
    show listAt (Store.set st' key _) key ≠ none
    rw [listAt_set_self]
    exact Option.some_ne_none _
  · exact absurd hb (by simp)

theorem init_exec (fuel : Nat) (st : Store) (key : String) (bks : List String) (a2 : String)
    (hfuel : bks.length + 15 ≤ fuel) (hlen : bks.length + 1 < maxArrayIndex) :
    resultOf (execBlock fuel cuckoo_filter_redis_initCuckooFilterRedis
        (initState (key :: bks) [decimal bks.length, a2] st)) =
      (pushAll key bks (st.del key), .reply (.int 1)) := by
  obtain ⟨f, rfl⟩ : ∃ f, fuel = f + 15 := ⟨fuel - 15, by omega⟩
  have hf : bks.length ≤ f := by omega
  have hnum : bks.length + 1 ≤ numLimit := by
    have : maxArrayIndex ≤ numLimit := by decide
    omega
  have hinv0 : InitInv key bks (decimal bks.length) a2
      (initState' (st.del key) key bks (decimal bks.length) a2 [key]) := by
    refine ⟨_, _, rfl, ?_⟩
    unfold listAt; rw [Store.del_self]; exact Option.some_ne_none _
  rw [init_split, execBlock_append _ _ (f + 11) 4 rfl, initPrefix_exec]
  simp only []
  rw [execBlock_cons, initFor_start _ _ key bks bks.length a2 _ hnum]
  rw [numForLoop_eq "i" initBody (initBodyM key bks) (InitInv key bks (decimal bks.length) a2) 8
    (initBody_inv_exec key bks _ a2) (initBodyM_inv key bks _ a2)
    bks.length 2 ((bks.length : Int) + 1) (by omega) _ hinv0 (f + 9) (by omega)]
  obtain ⟨log', hlog⟩ := init_loopModel key bks (decimal bks.length) a2 hlen bks.length 0 (by omega)
    (st.del key) [key]
  rw [show ((0 : Nat) : Int) + 2 = 2 from rfl, List.drop_zero] at hlog
  rw [hlog]
  simp only [execBlock_cons, execStmt_ret_true, resultOf_ret_true]
  rfl

end Gostatix.LuaBucket
