/-
  Gostatix.Proofs.CuckooKick — the eviction loop `Cuckoo.kick`.
-/
import Gostatix.Proofs.CuckooStep
import Gostatix.Proofs.CuckooOrbit
set_option linter.unusedSectionVars false
namespace Gostatix.Cuckoo

section
variable {B F : Type} [DecidableEq F] [Inhabited B] {o : BucketOps B F} {emp : F}

theorem kick_zero (alt : Nat → F → Nat) (bs : List B) (idx : Nat) (cur : F) (slots : List Nat)
    (log : List (F × Nat × Nat)) : kick o alt 0 bs idx cur slots log = (bs, log, false) := rfl

/-- one unfolding of the eviction loop -/
theorem kick_succ (alt : Nat → F → Nat) (r : Nat) (bs : List B) (idx : Nat) (cur : F) (slots : List Nat)
    (log : List (F × Nat × Nat)) :
    kick o alt (r+1) bs idx cur slots log =
      if o.isFree (bucketAt (modAt bs idx (fun b => o.set b (slots.headD 0) cur))
            (alt idx (o.get (bucketAt bs idx) (slots.headD 0)))) = true then
        (modAt (modAt bs idx (fun b => o.set b (slots.headD 0) cur))
            (alt idx (o.get (bucketAt bs idx) (slots.headD 0)))
            (fun b => o.add b (o.get (bucketAt bs idx) (slots.headD 0))),
          (o.get (bucketAt bs idx) (slots.headD 0), idx, slots.headD 0) :: log, true)
      else kick o alt r (modAt bs idx (fun b => o.set b (slots.headD 0) cur))
            (alt idx (o.get (bucketAt bs idx) (slots.headD 0)))
            (o.get (bucketAt bs idx) (slots.headD 0)) slots.tail
            ((o.get (bucketAt bs idx) (slots.headD 0), idx, slots.headD 0) :: log) := rfl

theorem rollback_cons (bs : List B) (e : F × Nat × Nat) (log : List (F × Nat × Nat)) :
    rollback o bs (e :: log) = rollback o (modAt bs e.2.1 (fun b => o.set b e.2.2 e.1)) log := rfl

/-- **rollback is exact**: if the loop fails, replaying the log restores the buckets it started from. -/
theorem kick_rollback (L : LawfulBucket o emp) (alt : Nat → F → Nat) :
    ∀ (r : Nat) (bs : List B) (idx : Nat) (cur : F) (slots : List Nat) (log : List (F × Nat × Nat))
      (bs' : List B) (log' : List (F × Nat × Nat)),
      kick o alt r bs idx cur slots log = (bs', log', false) →
      rollback o bs' log' = rollback o bs log := by
  intro r
  induction r with
  | zero =>
    intro bs idx cur slots log bs' log' h
    rw [kick_zero] at h
    injection h with h1 h2; injection h2 with h2 _
    subst h1; subst h2; rfl
  | succ r ih =>
    intro bs idx cur slots log bs' log' h
    rw [kick_succ] at h
    split at h
    · injection h with _ h2; injection h2 with _ h3; cases h3
    · rw [ih _ _ _ _ _ _ _ h, rollback_cons]
      congr 1
      simp only []
      rw [modAt_modAt_same]
      apply modAt_eq_self (d := default)
      exact L.set_set_get _ _ _

theorem headD_lt (slots : List Nat) (s : Nat) (hs : 0 < s) (h : ∀ x ∈ slots, x < s) :
    slots.headD 0 < s := by
  cases slots with
  | nil => exact hs
  | cons a as => exact h a List.mem_cons_self

theorem tail_lt (slots : List Nat) (s : Nat) (h : ∀ x ∈ slots, x < s) : ∀ x ∈ slots.tail, x < s :=
  fun x hx => h x (List.mem_of_mem_tail hx)

/-- what the eviction loop does to the table (any `n`, any in-range `alt`) -/
structure KickSpec (L : LawfulBucket o emp) (n s : Nat) (bs bs' : List B) (cur : F) (found : Bool) : Prop where
  wf : WFbs L n s bs'
  ok_bucket : found = true → ∃ j0, j0 < n ∧ o.isFree (bucketAt bs j0) = true ∧
      ∀ j, occB L bs' j = occB L bs j + ind (j = j0)
  ok_tocc : found = true → tocc L bs' = tocc L bs + 1
  ok_tcnt : found = true → ∀ g, g ≠ emp → tcnt L bs' g = tcnt L bs g + ind (cur = g)
  full_occB : found = false → ∀ j, occB L bs' j = occB L bs j
  full_tocc : found = false → tocc L bs' = tocc L bs
  full_tcnt : found = false → ∃ y, y ≠ emp ∧ (y = cur ∨ 0 < tcnt L bs y) ∧
      ∀ g, tcnt L bs' g + ind (y = g) = tcnt L bs g + ind (cur = g)

theorem kick_spec (L : LawfulBucket o emp) (alt : Nat → F → Nat) (n s : Nat)
    (hAlt : ∀ j f, j < n → alt j f < n) (hs : 0 < s) :
    ∀ (r : Nat) (bs : List B) (idx : Nat) (cur : F) (slots : List Nat) (log : List (F × Nat × Nat))
      (bs' : List B) (log' : List (F × Nat × Nat)) (found : Bool),
      WFbs L n s bs → idx < n → o.isFree (bucketAt bs idx) = false → cur ≠ emp →
      (∀ x ∈ slots, x < s) →
      kick o alt r bs idx cur slots log = (bs', log', found) →
      KickSpec L n s bs bs' cur found := by
  intro r
  induction r with
  | zero =>
    intro bs idx cur slots log bs' log' found hwf hidx hfull hcur hsl h
    rw [kick_zero] at h
    injection h with h1 h2; injection h2 with h2 h3
    subst h1; subst h3
    refine ⟨hwf, ?_, ?_, ?_, fun _ _ => rfl, fun _ => rfl, fun _ => ⟨cur, hcur, Or.inl rfl, fun _ => rfl⟩⟩ <;>
      intro h <;> cases h
  | succ r ih =>
    intro bs idx cur slots log bs' log' found hwf hidx hfull hcur hsl h
    rw [kick_succ] at h
    have hslot := headD_lt slots s hs hsl
    have st := set_step L n s bs idx (slots.headD 0) cur hwf hidx hfull hslot hcur
    have hnidx := hAlt idx (o.get (bucketAt bs idx) (slots.headD 0)) hidx
    split at h
    · rename_i hfree
      injection h with h1 h2; injection h2 with h2 h3
      subst h1; subst h3
      have ad := add_step L n s _ _ _ st.wf hnidx hfree st.prev_ne
      refine ⟨ad.wf, ?_, ?_, ?_, ?_, ?_, ?_⟩
      · intro _
        refine ⟨_, hnidx, ?_, ?_⟩
        · rw [← st.free]; exact hfree
        · intro j; rw [ad.occB, st.occB]
      · intro _; rw [ad.tocc, st.tocc]
      · intro _ g hg
        have := st.tcnt g
        rw [ad.tcnt g hg]; omega
      · intro h; cases h
      · intro h; cases h
      · intro h; cases h
    · rename_i hfree
      have hfull1 : o.isFree (bucketAt (modAt bs idx (fun b => o.set b (slots.headD 0) cur))
          (alt idx (o.get (bucketAt bs idx) (slots.headD 0)))) = false := by
        simpa using hfree
      have sp := ih _ _ _ _ _ _ _ _ st.wf hnidx hfull1 st.prev_ne (tail_lt slots s hsl) h
      refine ⟨sp.wf, ?_, ?_, ?_, ?_, ?_, ?_⟩
      · intro hf
        obtain ⟨j0, h1, h2, h3⟩ := sp.ok_bucket hf
        refine ⟨j0, h1, ?_, ?_⟩
        · rw [← st.free]; exact h2
        · intro j; rw [h3, st.occB]
      · intro hf; rw [sp.ok_tocc hf, st.tocc]
      · intro hf g hg
        have := st.tcnt g
        rw [sp.ok_tcnt hf g hg]; omega
      · intro hf j; rw [sp.full_occB hf, st.occB]
      · intro hf; rw [sp.full_tocc hf, st.tocc]
      · intro hf
        obtain ⟨y, hy, hy2, hy3⟩ := sp.full_tcnt hf
        refine ⟨y, hy, ?_, ?_⟩
        · rcases hy2 with e | hpos
          · subst e
            have := st.tcnt (o.get (bucketAt bs idx) (slots.headD 0))
            by_cases e2 : o.get (bucketAt bs idx) (slots.headD 0) = cur
            · exact Or.inl e2
            · right
              have e3 : ¬ cur = o.get (bucketAt bs idx) (slots.headD 0) := fun x => e2 x.symm
              simp only [ind, if_true, e3, if_false] at this
              omega
          · have := st.tcnt y
            by_cases e2 : y = cur
            · exact Or.inl e2
            · right
              have e3 : ¬ cur = y := fun x => e2 x.symm
              simp only [ind, e3, if_false] at this
              omega
        · intro g
          have := st.tcnt g
          have := hy3 g
          omega

/-- **kicks stay inside orbits**: when the alternate-bucket map is an involution, a successful
    eviction loop raises the orbit count of the carried key `(cur, idx)` by one and changes no
    other orbit count. -/
theorem kick_kc (L : LawfulBucket o emp) (alt : Nat → F → Nat) (n s : Nat)
    (hInv : ∀ j f, j < n → alt j f < n ∧ alt (alt j f) f = j) (hs : 0 < s) :
    ∀ (r : Nat) (bs : List B) (idx : Nat) (cur : F) (slots : List Nat) (log : List (F × Nat × Nat))
      (bs' : List B) (log' : List (F × Nat × Nat)),
      WFbs L n s bs → idx < n → o.isFree (bucketAt bs idx) = false → cur ≠ emp →
      (∀ x ∈ slots, x < s) →
      kick o alt r bs idx cur slots log = (bs', log', true) →
      ∀ j g, j < n → g ≠ emp →
        kcOf alt (cntB L bs') j g = kcOf alt (cntB L bs) j g + ind (g = cur ∧ (j = idx ∨ j = alt idx cur)) := by
  intro r
  induction r with
  | zero =>
    intro bs idx cur slots log bs' log' hwf hidx hfull hcur hsl h
    rw [kick_zero] at h
    injection h with h1 h2; injection h2 with h2 h3; cases h3
  | succ r ih =>
    intro bs idx cur slots log bs' log' hwf hidx hfull hcur hsl h j g hj hg
    rw [kick_succ] at h
    have hslot := headD_lt slots s hs hsl
    have st := set_step L n s bs idx (slots.headD 0) cur hwf hidx hfull hslot hcur
    have hnidx := (hInv idx (o.get (bucketAt bs idx) (slots.headD 0)) hidx).1
    -- abbreviations
    generalize hprev : o.get (bucketAt bs idx) (slots.headD 0) = prev at h st hnidx
    generalize hbs1 : modAt bs idx (fun b => o.set b (slots.headD 0) cur) = bs1 at h st
    -- the table with the overwritten slot taken out
    let c0 : Nat → F → Nat := fun j g => cntB L bs j g - ind (j = idx ∧ prev = g)
    have ha : ∀ j, cntB L bs j g = c0 j g + (if j = idx ∧ prev = g then 1 else 0) := by
      intro j
      show cntB L bs j g = cntB L bs j g - ind (j = idx ∧ prev = g) + ind (j = idx ∧ prev = g)
      by_cases e : j = idx ∧ prev = g
      · obtain ⟨e1, e2⟩ := e
        subst e1; subst e2
        have := st.prev_mem
        simp only [ind, and_self, if_true]; omega
      · simp [ind, e]
    have hb : ∀ j, cntB L bs1 j g = c0 j g + (if j = idx ∧ cur = g then 1 else 0) := by
      intro j
      have h1 := st.cnt j g
      have h2 := ha j
      simp only [ind] at h1 h2 ⊢
      omega
    have k0 := kc_add_key alt n hInv c0 (cntB L bs) idx prev hidx j g hj ha
    have k1 := kc_add_key alt n hInv c0 (cntB L bs1) idx cur hidx j g hj hb
    have horb := orbit_alt alt n hInv idx prev hidx j
    have key : kcOf alt (cntB L bs') j g =
        kcOf alt (cntB L bs1) j g + ind (g = prev ∧ (j = idx ∨ j = alt idx prev)) := by
      split at h
      · rename_i hfree
        injection h with h1 h2
        subst h1
        have ad := add_step L n s _ _ _ st.wf hnidx hfree st.prev_ne
        have k2 := kc_add_key alt n hInv (cntB L bs1) _ (alt idx prev) prev hnidx j g hj
          (fun j => ad.cnt j g hg)
        rw [k2]
        simp only [ind, horb]
      · rename_i hfree
        have hfull1 : o.isFree (bucketAt bs1 (alt idx prev)) = false := by simpa using hfree
        have := ih _ _ _ _ _ _ _ st.wf hnidx hfull1 st.prev_ne (tail_lt slots s hsl) h j g hj hg
        rw [this]
        simp only [ind, horb]
    rw [key, k1, k0]
    simp only [ind]
    omega

/-- **a failing loop saw only full buckets**: it used all `r` retries and every bucket it visited
    (`e.2.1`) and every bucket it tested for room (`alt e.2.1 e.1`) was full in the initial table. -/
theorem kick_log (L : LawfulBucket o emp) (alt : Nat → F → Nat) (n s : Nat)
    (hAlt : ∀ j f, j < n → alt j f < n) (hs : 0 < s) :
    ∀ (r : Nat) (bs : List B) (idx : Nat) (cur : F) (slots : List Nat) (log : List (F × Nat × Nat))
      (bs' : List B) (log' : List (F × Nat × Nat)),
      WFbs L n s bs → idx < n → o.isFree (bucketAt bs idx) = false → cur ≠ emp →
      (∀ x ∈ slots, x < s) →
      kick o alt r bs idx cur slots log = (bs', log', false) →
      ∃ new, log' = new ++ log ∧ new.length = r ∧
        ∀ e ∈ new, e.2.1 < n ∧ o.isFree (bucketAt bs e.2.1) = false ∧
          o.isFree (bucketAt bs (alt e.2.1 e.1)) = false := by
  intro r
  induction r with
  | zero =>
    intro bs idx cur slots log bs' log' hwf hidx hfull hcur hsl h
    rw [kick_zero] at h
    injection h with h1 h2; injection h2 with h2 h3
    exact ⟨[], by simp [h2], rfl, by simp⟩
  | succ r ih =>
    intro bs idx cur slots log bs' log' hwf hidx hfull hcur hsl h
    rw [kick_succ] at h
    have hslot := headD_lt slots s hs hsl
    have st := set_step L n s bs idx (slots.headD 0) cur hwf hidx hfull hslot hcur
    have hnidx := hAlt idx (o.get (bucketAt bs idx) (slots.headD 0)) hidx
    split at h
    · injection h with _ h2; injection h2 with _ h3; cases h3
    · rename_i hfree
      have hfull1 : o.isFree (bucketAt (modAt bs idx (fun b => o.set b (slots.headD 0) cur))
          (alt idx (o.get (bucketAt bs idx) (slots.headD 0)))) = false := by
        simpa using hfree
      obtain ⟨new, h1, h2, h3⟩ :=
        ih _ _ _ _ _ _ _ st.wf hnidx hfull1 st.prev_ne (tail_lt slots s hsl) h
      refine ⟨new ++ [(o.get (bucketAt bs idx) (slots.headD 0), idx, slots.headD 0)], ?_, ?_, ?_⟩
      · rw [h1]; simp
      · simp [h2]
      · intro e he
        rw [List.mem_append] at he
        rcases he with he | he
        · obtain ⟨a, b, c⟩ := h3 e he
          rw [st.free] at b c
          exact ⟨a, b, c⟩
        · simp only [List.mem_singleton] at he
          subst he
          rw [st.free] at hfull1
          exact ⟨hidx, hfull, hfull1⟩

end
end Gostatix.Cuckoo
