/-
  Gostatix.Proofs.TopKMem — the in-memory variant (`TopK.offer` on a `container/heap` array)
  refines the specification step.
-/
import Gostatix.Proofs.GoHeap
import Gostatix.Proofs.TopKInv
namespace Gostatix.TopK

open GoHeap

/-- the heap-order invariant of `container/heap` on the frequencies -/
def HeapInv (h : Array HElem) : Prop :=
  ∀ i (hi : i < h.size) (_ : 0 < i), (h[(i - 1) / 2]'(by omega)).2 ≤ h[i].2

instance (h : Array HElem) : Decidable (HeapInv h) := by unfold HeapInv; infer_instance

theorem key_eq_getElem (h : Array HElem) (i : Nat) (hi : i < h.size) : key h i = h[i].2 := by
  simp [key, Array.getD, hi]

theorem heapInv_iff (h : Array HElem) : HeapInv h ↔ GoHeap.Ord h := by
  constructor
  · intro hh m hm hmn
    rw [key_eq_getElem h m hmn, key_eq_getElem h _ (by omega)]
    exact hh m hmn hm
  · intro ho i hi hi0
    have := ho i hi0 hi
    rwa [key_eq_getElem h i hi, key_eq_getElem h _ (by omega)] at this

/-- the root carries a minimal frequency -/
theorem root_le (h : Array HElem) (ho : GoHeap.Ord h) :
    ∀ p ∈ h.toList, (h.getD 0 ("", 0)).2 ≤ p.2 := by
  intro p hp
  obtain ⟨i, hi, rfl⟩ := List.getElem_of_mem hp
  have hi' : i < h.size := by simpa using hi
  have := ordF_root_min (key h) h.size ho i hi'
  rw [key_eq_getElem h i hi'] at this
  simpa [key] using this

theorem root_mem (h : Array HElem) (hs : 0 < h.size) : h.getD 0 ("", 0) ∈ h.toList := by
  simp [Array.getD, hs]

/-- `IndexOf` + `heap.Remove` -/
def dropKey (h : Array HElem) (x : String) : Array HElem :=
  match GoHeap.indexOf h x with
  | some i => GoHeap.remove h i
  | none => h

theorem offer_eq (k : Nat) (h : Array HElem) (x : String) (f : Nat) :
    offer k h x f =
      if h.size < k ∨ f ≥ (h.getD 0 ("", 0)).2 then
        (if (push (dropKey h x) (x, f)).size > k then pop (push (dropKey h x) (x, f))
         else push (dropKey h x) (x, f))
      else h := rfl

/-- `IndexOf` + `heap.Remove` drops the entry of `x` -/
theorem dropKey_spec (h : Array HElem) (x : String) (ho : GoHeap.Ord h)
    (hn : (h.toList.map (·.1)).Nodup) :
    GoHeap.Ord (dropKey h x) ∧
    (dropKey h x).toList.Perm (h.toList.filter (fun e => e.1 ≠ x)) := by
  unfold dropKey
  cases hidx : GoHeap.indexOf h x with
  | none =>
    simp only
    refine ⟨ho, ?_⟩
    unfold GoHeap.indexOf at hidx
    rw [Array.findIdx?_eq_none_iff] at hidx
    have : h.toList.filter (fun e => e.1 ≠ x) = h.toList := by
      apply List.filter_eq_self.2
      intro e he
      have := hidx e (by simpa using he)
      simpa using this
    rw [this]
  | some i =>
    simp only
    unfold GoHeap.indexOf at hidx
    rw [Array.findIdx?_eq_some_iff_getElem] at hidx
    obtain ⟨hi, hx, _⟩ := hidx
    have hx' : h[i].1 = x := by simpa using hx
    obtain ⟨_, hperm, hord⟩ := remove_spec h i hi ho
    have hget : h.getD i ("", 0) = h[i] := by simp [Array.getD, hi]
    rw [hget] at hperm
    refine ⟨hord, ?_⟩
    -- no entry of the result has key x
    have hnd : (((remove h i).toList ++ [h[i]]).map (·.1)).Nodup :=
      ((hperm.map (·.1)).nodup_iff).2 hn
    rw [List.map_append, List.nodup_append] at hnd
    have hnot : ∀ e ∈ (remove h i).toList, (decide (e.1 ≠ x)) = true := by
      intro e he
      have := hnd.2.2 e.1 (List.mem_map_of_mem he) x (by simp [hx'])
      simpa using this
    have h1 : ((remove h i).toList ++ [h[i]]).filter (fun e => decide (e.1 ≠ x))
        = (remove h i).toList := by
      rw [List.filter_append, List.filter_eq_self.2 hnot]
      simp [hx']
    rw [← h1]
    exact hperm.filter _

/-- what `offer` computes when its guard holds -/
theorem offer_admitted (k : Nat) (h : Array HElem) (x : String) (f : Nat)
    (hg : h.size < k ∨ f ≥ (h.getD 0 ("", 0)).2) (ho : GoHeap.Ord h)
    (hn : (h.toList.map (·.1)).Nodup) :
    GoHeap.Ord (offer k h x f) ∧
    (k < (upsert h.toList x f).length →
      ∃ v ∈ upsert h.toList x f, (∀ e ∈ upsert h.toList x f, v.2 ≤ e.2) ∧
        (offer k h x f).toList.Perm ((upsert h.toList x f).erase v)) ∧
    (¬ k < (upsert h.toList x f).length → (offer k h x f).toList.Perm (upsert h.toList x f)) := by
  rw [offer_eq, if_pos hg]
  obtain ⟨ho1, hp1⟩ := dropKey_spec h x ho hn
  generalize dropKey h x = h1 at ho1 hp1
  obtain ⟨hsz2, hp2, ho2⟩ := push_spec h1 (x, f) ho1
  have hp2' : (push h1 (x, f)).toList.Perm (upsert h.toList x f) :=
    hp2.trans (List.Perm.append_right _ hp1)
  generalize push h1 (x, f) = h2 at hsz2 hp2 ho2 hp2'
  clear hp2 hsz2
  have hlen : h2.size = (upsert h.toList x f).length := by
    rw [← hp2'.length_eq]; simp
  by_cases hgt : h2.size > k
  · rw [if_pos hgt]
    obtain ⟨_, hp3, ho3⟩ := pop_spec h2 (by omega) ho2
    refine ⟨ho3, fun _ => ?_, fun hno => absurd (by omega) hno⟩
    have hv : h2.getD 0 ("", 0) ∈ upsert h.toList x f :=
      hp2'.mem_iff.1 (root_mem h2 (by omega))
    refine ⟨h2.getD 0 ("", 0), hv, ?_, ?_⟩
    · intro e he
      exact root_le h2 ho2 e (hp2'.mem_iff.2 he)
    · have a : ((pop h2).toList ++ [h2.getD 0 ("", 0)]).Perm
          (h2.getD 0 ("", 0) :: (upsert h.toList x f).erase (h2.getD 0 ("", 0))) :=
        (hp3.trans hp2').trans (List.perm_cons_erase hv)
      have b : (h2.getD 0 ("", 0) :: (pop h2).toList).Perm
          ((pop h2).toList ++ [h2.getD 0 ("", 0)]) :=
        List.perm_append_comm (l₁ := [h2.getD 0 ("", 0)]) (l₂ := (pop h2).toList)
      exact (b.trans a).cons_inv
  · rw [if_neg hgt]
    exact ⟨ho2, fun hlt => absurd (by omega) hgt, fun _ => hp2'⟩

/-- the specification guard implies the guard of `offer` (heap order: `heap[0]` is minimal) -/
theorem guard_of_admit (k : Nat) (h : Array HElem) (f : Nat) (ho : GoHeap.Ord h)
    (hA : Admit k h.toList f) : h.size < k ∨ f ≥ (h.getD 0 ("", 0)).2 := by
  rcases hA with hl | ⟨m, hm, _, hf⟩
  · left; simpa using hl
  · right; exact Nat.le_trans (root_le h ho m hm) hf

/-- conversely, unless `k = 0` and the heap is empty (where `heap[0]` panics in Go) -/
theorem admit_of_guard (k : Nat) (h : Array HElem) (f : Nat) (ho : GoHeap.Ord h)
    (hg : h.size < k ∨ f ≥ (h.getD 0 ("", 0)).2) (hne : 0 < k ∨ 0 < h.size) :
    Admit k h.toList f := by
  by_cases hs : 0 < h.size
  · rcases hg with hl | hf
    · left; simpa using hl
    · right; exact ⟨h.getD 0 ("", 0), root_mem h hs, root_le h ho, hf⟩
  · left
    have : h.size = 0 := by omega
    simp only [Array.length_toList, this]
    omega

theorem mem_refines_spec (k : Nat) (h : Array HElem) (x : String) (f : Nat)
    (hinv : HeapInv h) (hn : (h.toList.map (·.1)).Nodup) :
    Step k h.toList (x, f) (offer k h x f).toList ∧ HeapInv (offer k h x f) := by
  have ho := (heapInv_iff h).1 hinv
  rw [heapInv_iff]
  by_cases hA : Admit k h.toList f
  · obtain ⟨o1, o2, o3⟩ := offer_admitted k h x f (guard_of_admit k h f ho hA) ho hn
    exact ⟨⟨fun _ => ⟨o2, o3⟩, fun h' => absurd hA h'⟩, o1⟩
  · by_cases hg : h.size < k ∨ f ≥ (h.getD 0 ("", 0)).2
    · -- only possible for `k = 0` and an empty heap: the entry is pushed and popped again
      have hk : ¬ (0 < k ∨ 0 < h.size) := fun hne => hA (admit_of_guard k h f ho hg hne)
      have hk0 : k = 0 := by omega
      have hs0 : h.size = 0 := by omega
      have hnil : h.toList = [] := by
        apply List.eq_nil_of_length_eq_zero; simpa using hs0
      obtain ⟨o1, o2, _⟩ := offer_admitted k h x f hg ho hn
      refine ⟨⟨fun h' => absurd h' hA, fun _ => ?_⟩, o1⟩
      rw [hnil] at o2 ⊢
      obtain ⟨v, hv, _, hp⟩ := o2 (by simp [upsert, hk0])
      have : v = (x, f) := by simpa [upsert] using hv
      subst this
      simpa [upsert] using hp
    · have : offer k h x f = h := by rw [offer_eq, if_neg hg]
      rw [this]
      exact ⟨⟨fun h' => absurd h' hA, fun _ => List.Perm.refl _⟩, ho⟩

end Gostatix.TopK
