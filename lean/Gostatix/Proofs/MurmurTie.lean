/-
  Gostatix.Proofs.MurmurTie — helper lemmas for Props/MurmurTie.lean.

  Part 1 relates the Go primitives of Model/GoBits.lean (rotation as `BitVec.rotateLeft`, recursive
  little-endian value) to the shift/or formulas of the hand transcription Model/Murmur.lean.  It does
  not mention the generated definitions.
  Part 2 restates the hand transcription `Murmur.bmix` / `Murmur.sum128` as a composition of
  `modelBlock`, `modelTail`, `modelFinal` (the model inlines these); the restatements are proved
  equal to the model by unfolding only (`bmix_succ`, `model_sum128`).

  Kernel note: `Murmur.bmix.eq_2` (the equation lemma `simp`/`unfold` would use) cannot be generated -
  the kernel overflows its stack on `Murmur.bmix (n+1) bs h1 h2 = Murmur.bmix n ..` by `rfl`
  ("deep recursion", it compares the `UInt64` accumulators of the two calls before unfolding, which
  runs into unary arithmetic on the 10-digit literals).  `rw [Murmur.bmix.eq_def]` avoids it.
-/
import Gostatix.Model.GoBits
import Gostatix.Model.Murmur
namespace Gostatix.MurmurTie
open Gostatix

/-! ### Part 1: primitives -/

/-- `bits.RotateLeft64` (a rotation of the bit vector) is the shift/or formula of the model. -/
theorem rotl64_eq (x : UInt64) (k : Nat) (hk : k < 64) :
    GoBits.rotl64 x k = Murmur.rotl x (UInt64.ofNat k) := by
  apply UInt64.eq_of_toBitVec_eq
  simp [GoBits.rotl64, Murmur.rotl, BitVec.rotateLeft_def]
  rcases Nat.eq_zero_or_pos k with rfl | hpos
  · simp [BitVec.ushiftRight_eq_zero]
  · have h1 : k % 64 = k := Nat.mod_eq_of_lt hk
    have h2 : k % 18446744073709551616 = k := Nat.mod_eq_of_lt (by omega)
    have h3 : (18446744073709551616 - k) % 64 = 64 - k := by omega
    rw [h1, h2, h3]

/-- the same, oriented as a rewrite rule for the model side (`r` a literal below 64). -/
theorem model_rotl (x r : UInt64) (h : r.toNat < 64) : Murmur.rotl x r = GoBits.rotl64 x r.toNat := by
  rw [rotl64_eq x r.toNat h]; simp

/-- the model's little-endian load (a `foldr` over at most 8 bytes) is `GoBits.le64`. -/
theorem le64_take (bs : List UInt8) : Murmur.le64 bs = GoBits.le64 (bs.take 8) := by
  unfold Murmur.le64
  generalize bs.take 8 = l
  induction l with
  | nil => rfl
  | cons b l ih => simp [GoBits.le64, ← ih, UInt64.or_comm]

/-- bit level: a byte xor-ed in below an assembled word that was shifted 8 further. -/
theorem bv_step (X : BitVec 64) (b : BitVec 8) (s : Nat) :
    (X <<< (s + 8)) ^^^ (b.setWidth 64 <<< s) = ((b.setWidth 64) ||| (X <<< 8)) <<< s := by
  ext i hi
  simp only [BitVec.getElem_xor, BitVec.getElem_shiftLeft, BitVec.getElem_or, BitVec.getElem_setWidth]
  by_cases h1 : i < s
  · have h2 : i < s + 8 := by omega
    simp [h1, h2]
  · by_cases h2 : i < s + 8
    · have h3 : i - s < 8 := by omega
      simp [h1, h2, h3]
    · have h3 : ¬ i - s < 8 := by omega
      have h4 : 8 ≤ i - s := by omega
      simp [h1, h2, h3, BitVec.getLsbD_of_ge _ _ h4, Nat.sub_add_eq]

/-- `k ^= uint64(b) << s` when `k` holds the bytes above, shifted by `t = s + 8`: the switch of
    `Sum128` assembles the little-endian value from the most significant byte down. -/
theorem le64_step (bs : List UInt8) (b : UInt8) (s t : UInt64) (ht : t.toNat = s.toNat + 8)
    (h64 : t.toNat < 64) :
    (GoBits.le64 bs <<< t) ^^^ (b.toUInt64 <<< s) = GoBits.le64 (b :: bs) <<< s := by
  apply UInt64.eq_of_toBitVec_eq
  have hs : s.toNat < 64 := by omega
  have e1 : (t.toBitVec % 64).toNat = s.toNat + 8 := by
    simp [BitVec.toNat_umod]; omega
  have e2 : (s.toBitVec % 64).toNat = s.toNat := by
    simp [BitVec.toNat_umod]; omega
  simp only [GoBits.le64, UInt64.toBitVec_xor, UInt64.toBitVec_shiftLeft, UInt64.toBitVec_or,
    UInt8.toBitVec_toUInt64, BitVec.shiftLeft_eq', e1, e2]
  exact bv_step _ _ _

theorem le64_start0 (b : UInt8) (s : UInt64) :
    (0 : UInt64) ^^^ (b.toUInt64 <<< s) = GoBits.le64 [b] <<< s := by
  simp [GoBits.le64]

theorem le64_start1 (b : UInt8) : (0 : UInt64) ^^^ b.toUInt64 = GoBits.le64 [b] := by
  simp [GoBits.le64]

theorem le64_last (bs : List UInt8) (b : UInt8) :
    (GoBits.le64 bs <<< 8) ^^^ b.toUInt64 = GoBits.le64 (b :: bs) := by
  have := le64_step bs b 0 8 (by decide) (by decide)
  simpa using this

/-- `len(tail) & 15` for a tail shorter than a block. -/
theorem and15 : ∀ n, n < 16 → n &&& 15 = n := by decide

/-! ### Part 2: the hand transcription, restated piecewise -/

/-- one iteration of `Murmur.bmix` on the loaded words. -/
def modelBlock (h1 h2 k1 k2 : UInt64) : UInt64 × UInt64 :=
  let k1 := k1 * Murmur.c1
  let k1 := Murmur.rotl k1 31
  let k1 := k1 * Murmur.c2
  let h1 := h1 ^^^ k1
  let h1 := Murmur.rotl h1 27
  let h1 := h1 + h2
  let h1 := h1 * 5 + 0x52dce729
  let k2 := k2 * Murmur.c2
  let k2 := Murmur.rotl k2 33
  let k2 := k2 * Murmur.c1
  let h2 := h2 ^^^ k2
  let h2 := Murmur.rotl h2 31
  let h2 := h2 + h1
  let h2 := h2 * 5 + 0x38495ab5
  (h1, h2)

theorem bmix_zero (bs : List UInt8) (h1 h2 : UInt64) : Murmur.bmix 0 bs h1 h2 = (h1, h2, bs) := by
  rw [Murmur.bmix.eq_def]

theorem bmix_succ (n : Nat) (bs : List UInt8) (h1 h2 : UInt64) :
    Murmur.bmix (n+1) bs h1 h2 =
      Murmur.bmix n (bs.drop 16) (modelBlock h1 h2 (Murmur.le64 bs) (Murmur.le64 (bs.drop 8))).1
        (modelBlock h1 h2 (Murmur.le64 bs) (Murmur.le64 (bs.drop 8))).2 := by
  rw [Murmur.bmix.eq_def]; rfl

/-- the tail part of `Murmur.sum128` (bytes 8.. into `h2`, bytes 0..7 into `h1`). -/
def modelTail (tail : List UInt8) (h1 h2 : UInt64) : UInt64 × UInt64 :=
  let tl := tail.length
  let h2 := if tl > 8 then
      let k2 := Murmur.le64 (tail.drop 8)
      let k2 := k2 * Murmur.c2
      let k2 := Murmur.rotl k2 33
      let k2 := k2 * Murmur.c1
      h2 ^^^ k2
    else h2
  let h1 := if tl > 0 then
      let k1 := Murmur.le64 tail
      let k1 := k1 * Murmur.c1
      let k1 := Murmur.rotl k1 31
      let k1 := k1 * Murmur.c2
      h1 ^^^ k1
    else h1
  (h1, h2)

/-- the finalisation of `Murmur.sum128`. -/
def modelFinal (h1 h2 dlen : UInt64) : UInt64 × UInt64 :=
  let h1 := h1 ^^^ dlen
  let h2 := h2 ^^^ dlen
  let h1 := h1 + h2
  let h2 := h2 + h1
  let h1 := Murmur.fmix64 h1
  let h2 := Murmur.fmix64 h2
  let h1 := h1 + h2
  let h2 := h2 + h1
  (h1, h2)

/-- `Murmur.sum128` is block mixing, then `modelTail`, then `modelFinal`. -/
theorem model_sum128 (data : List UInt8) (h1 h2 : UInt64) (tail : List UInt8)
    (hb : Murmur.bmix (data.length / 16) data 0 0 = (h1, h2, tail)) :
    Murmur.sum128 data
      = modelFinal (modelTail tail h1 h2).1 (modelTail tail h1 h2).2 data.length.toUInt64 := by
  unfold Murmur.sum128
  simp only [hb]
  rfl

end Gostatix.MurmurTie
