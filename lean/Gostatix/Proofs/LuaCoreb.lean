/-
  Gostatix.Proofs.LuaCoreb — generic lemmas about the Lua-subset interpreter of Model/Lua.lean,
  used by Proofs/LuaCMS.lean and Props/LuaCMS.lean.

  * numerals: the decimal spelling of a natural `≤ 2^53` is read back by `tonumber`
    (`luaToNumber_decimal`) and by `strconv.Atoi` (`goAtoi_decimal`);
  * the monad `M` applied to a state (`bind_apply`, `pure_apply`), the equations of the
    evaluator for fuel `f + 1`, one per syntactic form (all by `rfl`);
  * variables, scopes, builtins (`tonumber`, `tostring`, `unpack`, `redis.call`, `redis.pcall`),
    the Redis commands used by the Count-Min scripts;
  * the general loop lemma `numForLoop_spec`: a numeric `for` with `n` iterations and a body whose
    effect is described by an invariant `P k` (before iteration `k`) satisfies any postcondition
    `Q` that holds after `n` rounds and for every early exit (return / error) of the body; the fuel
    needed is `n + K + 1` where `K` is the fuel one round of the body needs;
  * `ipairsLoop_spec`: the same for `for i, v in ipairs(t)`;
  * `luab_simp [extra lemmas]`: the `simp only` set that evaluates straight-line code on a state whose
    environment is a concrete list (all fuels are of the form `f + k`, so every lemma is stated for `f + 1`).
-/
import Gostatix.Generated.LuaScripts
import Gostatix.Proofs.RedisCMS
namespace Gostatix.LuaCMS
open Gostatix.Lua Gostatix.Redis

/-! ## numerals -/

theorem digitVal_of_isDigit {c : Char} (h : c.isDigit = true) : digitVal c = some (c.toNat - 48) := by
  unfold digitVal
  simp only [Char.isDigit, Bool.and_eq_true, decide_eq_true_eq] at h
  have h1 : '0' ≤ c := by
    show '0'.val ≤ c.val
    exact h.1
  have h2 : c ≤ '9' := by
    show c.val ≤ '9'.val
    exact h.2
  simp [h1, h2]

theorem toNat_sub_lt_of_isDigit {c : Char} (h : c.isDigit = true) : c.toNat - 48 < 10 := by
  simp only [Char.isDigit, Bool.and_eq_true, decide_eq_true_eq] at h
  have h2 : c.val.toNat ≤ 57 := h.2
  show c.val.toNat - 48 < 10
  omega

theorem parseDigits_digits : ∀ (cs : List Char) (acc : Nat), (∀ c ∈ cs, c.isDigit = true) →
    parseDigits 10 cs acc = some (Nat.ofDigitChars 10 cs acc)
  | [], acc, _ => by simp [parseDigits, Nat.ofDigitChars_nil]
  | c :: cs, acc, h => by
    have hc := h c (List.mem_cons_self ..)
    rw [parseDigits, digitVal_of_isDigit hc]
    simp only [toNat_sub_lt_of_isDigit hc, if_true]
    rw [parseDigits_digits cs _ (fun d hd => h d (List.mem_cons_of_mem _ hd)), Nat.ofDigitChars_cons]
    congr 2
    rw [Nat.mul_comm]
    rfl

def signSplit (cs : List Char) : Bool × List Char :=
  match cs with
  | '-' :: r => (true, r)
  | '+' :: r => (false, r)
  | r => (false, r)

theorem goParseInt_eq (base : Nat) (cs : List Char) : goParseInt base cs =
    (if (signSplit cs).2.isEmpty then .nan else
      match parseDigits base (signSplit cs).2 0 with
      | none => .nan
      | some n =>
        if ((signSplit cs).1 && n > 2 ^ 63) || (!(signSplit cs).1 && n ≥ 2 ^ 63) then .nan
        else if n > numLimit then .big else .num (if (signSplit cs).1 then -(n : Int) else (n : Int))) := rfl

theorem signSplit_digit {c : Char} (rest : List Char) (hc : c.isDigit = true) :
    signSplit (c :: rest) = (false, c :: rest) := by
  have hm : c ≠ '-' := by intro h; subst h; revert hc; decide
  have hp : c ≠ '+' := by intro h; subst h; revert hc; decide
  unfold signSplit
  split
  · rename_i h; exact absurd (List.cons.inj h).1 hm
  · rename_i h; exact absurd (List.cons.inj h).1 hp
  · rfl

/-- a non-empty list of digits that reads as `n ≤ 2^53` is parsed by Go's `ParseInt(·, 10, 64)`. -/
theorem goParseInt_digits {cs : List Char} (hne : cs ≠ []) (hd : ∀ c ∈ cs, c.isDigit = true)
    (hn : Nat.ofDigitChars 10 cs 0 ≤ numLimit) :
    goParseInt 10 cs = .num (Nat.ofDigitChars 10 cs 0 : Nat) := by
  obtain ⟨c, rest, rfl⟩ := List.exists_cons_of_ne_nil hne
  have hc := hd c (List.mem_cons_self ..)
  have h63 : ¬ (Nat.ofDigitChars 10 (c :: rest) 0 ≥ 2 ^ 63) := by
    unfold numLimit at hn; omega
  have h53 : ¬ (Nat.ofDigitChars 10 (c :: rest) 0 > numLimit) := by omega
  rw [goParseInt_eq, signSplit_digit rest hc]
  simp only [parseDigits_digits _ 0 hd]
  simp [h63, h53]

theorem goParseInt_decimal {n : Nat} (h : n ≤ numLimit) : goParseInt 10 (decimal n).toList = .num n := by
  have := goParseInt_digits (decimal_toList_ne_nil n) (decimal_digits n)
  rw [decimal_toList, Nat.ofDigitChars_ten_toDigits] at this
  rw [decimal_toList]
  exact this h

theorem goAtoi_decimal {n : Nat} (h : n ≤ numLimit) : goAtoi (decimal n) = .num n := goParseInt_decimal h

theorem trimChars_digits {cs : List Char} (hd : ∀ c ∈ cs, c.isDigit = true) : trimChars cs = cs := by
  have hnt : ∀ c ∈ cs, isTrimChar c = false := by
    intro c hc
    have := hd c hc
    simp only [Char.isDigit, Bool.and_eq_true, decide_eq_true_eq] at this
    have h1 : 48 ≤ c.val.toNat := this.1
    unfold isTrimChar
    have a : c ≠ ' ' := by intro e; subst e; revert h1; decide
    have b : c ≠ '\n' := by intro e; subst e; revert h1; decide
    have d : c ≠ '\t' := by intro e; subst e; revert h1; decide
    simp [a, b, d]
  unfold trimChars
  have dw : ∀ (l : List Char), (∀ c ∈ l, isTrimChar c = false) → l.dropWhile isTrimChar = l := by
    intro l hl
    cases l with
    | nil => rfl
    | cons a l => rw [List.dropWhile_cons]; simp [hl a (List.mem_cons_self ..)]
  rw [dw cs hnt, dw cs.reverse (fun c hc => hnt c (List.mem_reverse.mp hc)), List.reverse_reverse]

def hexSplit (cs : List Char) : NumParse :=
  match cs with
  | '0' :: x :: rest => if x = 'x' ∨ x = 'X' then goParseInt 16 rest else goParseInt 10 cs
  | _ => goParseInt 10 cs

theorem luaToNumber_eq (s : String) : luaToNumber s =
    (if (trimChars s.toList).contains '.' then .unsupported "tonumber of a string containing '.'" else
      match hexSplit (trimChars s.toList) with
      | .num n => .num n
      | .nan => .nil
      | .big => .unsupported "tonumber of a numeral beyond 2^53") := rfl

theorem hexSplit_digits {cs : List Char} (hd : ∀ c ∈ cs, c.isDigit = true) : hexSplit cs = goParseInt 10 cs := by
  unfold hexSplit
  split
  · rename_i x rest
    have hx : x.isDigit = true := hd x (by simp)
    have h1 : x ≠ 'x' := by intro e; subst e; revert hx; decide
    have h2 : x ≠ 'X' := by intro e; subst e; revert hx; decide
    simp only [h1, h2, or_self, if_false]
  · rfl

theorem luaToNumber_digits {s : String} (hne : s.toList ≠ []) (hd : ∀ c ∈ s.toList, c.isDigit = true)
    (hn : Nat.ofDigitChars 10 s.toList 0 ≤ numLimit) :
    luaToNumber s = .num (Nat.ofDigitChars 10 s.toList 0 : Nat) := by
  have hdot : s.toList.contains '.' = false := by
    rw [List.contains_eq_mem]
    simp only [decide_eq_false_iff_not]
    intro hm
    exact absurd (hd _ hm) (by decide)
  rw [luaToNumber_eq, trimChars_digits hd, hexSplit_digits hd, goParseInt_digits hne hd hn]
  simp only [hdot, Bool.false_eq_true, if_false]

/-- what `parseDecimal` (the hand models' `tonumber`) accepts, `tonumber` reads the same way. -/
theorem luaToNumber_of_parseDecimal {s : String} {n : Nat} (h : parseDecimal s = some n) (hn : n ≤ numLimit) :
    luaToNumber s = .num n := by
  unfold parseDecimal at h
  simp only at h
  split at h
  · rename_i hc
    have hv : Nat.ofDigitChars 10 s.toList 0 = n := Option.some.inj h
    have := luaToNumber_digits hc.1 (List.all_eq_true.mp hc.2) (by rw [hv]; exact hn)
    rw [hv] at this
    exact this
  · exact absurd h (by simp)

theorem luaToNumber_decimal {n : Nat} (h : n ≤ numLimit) : luaToNumber (decimal n) = .num n :=
  luaToNumber_of_parseDecimal (parseDecimal_decimal n) h

theorem renderInt_ofNat (n : Nat) : renderInt (n : Int) = decimal n := rfl

theorem renderInt_natCast_ne_minus_zero (n : Nat) : renderInt (n : Int) ≠ "-0" := by
  intro h
  have hd := decimal_digits n
  rw [renderInt_ofNat] at h
  rw [h] at hd
  exact absurd (hd '-' (by decide)) (by decide)

/-! ## the monad -/

theorem bind_apply {α β} (m : M α) (f : α → M β) (s : State) :
    (m >>= f) s = match m s with
      | .ok a s' => f a s'
      | .error e s' => .error e s'
      | .unsupported w s' => .unsupported w s'
      | .outOfFuel s' => .outOfFuel s' := rfl

theorem pure_apply {α} (a : α) (s : State) : (pure a : M α) s = .ok a s := rfl
theorem error_apply {α} (msg : String) (s : State) : (M.error msg : M α) s = .error msg s := rfl
theorem unsupported_apply {α} (msg : String) (s : State) : (M.unsupported msg : M α) s = .unsupported msg s := rfl
theorem modify_apply (f : State → State) (s : State) : M.modify f s = .ok () (f s) := rfl

/-! ## evaluator equations -/

theorem evalExpr_litNil (f : Nat) : evalExpr (f+1) .litNil = pure .nil := rfl
theorem evalExpr_litTrue (f : Nat) : evalExpr (f+1) .litTrue = pure (.bool true) := rfl
theorem evalExpr_litFalse (f : Nat) : evalExpr (f+1) .litFalse = pure (.bool false) := rfl
theorem evalExpr_num (f : Nat) (n : Int) : evalExpr (f+1) (.num n) = pure (.num n) := rfl
theorem evalExpr_str (f : Nat) (n : String) : evalExpr (f+1) (.str n) = pure (.str n) := rfl
theorem evalExpr_var (f : Nat) (x : String) : evalExpr (f+1) (.var x) = readVar x := rfl
theorem evalExpr_index (f : Nat) (t k : Expr) : evalExpr (f+1) (.index t k) = (do
      let tv ← evalExpr f t
      let kv ← evalExpr f k
      indexValue tv kv) := rfl
theorem evalExpr_or (f : Nat) (a b : Expr) : evalExpr (f+1) (.binop .or a b) = (do
      let av ← evalExpr f a
      if av.truthy then pure av else evalExpr f b) := rfl
theorem evalExpr_and (f : Nat) (a b : Expr) : evalExpr (f+1) (.binop .and a b) = (do
      let av ← evalExpr f a
      if av.truthy then evalExpr f b else pure av) := rfl
theorem evalExpr_binop (f : Nat) (op : BinOp) (a b : Expr) (h1 : op ≠ .and) (h2 : op ≠ .or) :
    evalExpr (f+1) (.binop op a b) = (do
      let av ← evalExpr f a
      let bv ← evalExpr f b
      binop op av bv) := by
  cases op <;> first | rfl | exact absurd rfl h1 | exact absurd rfl h2
theorem evalExpr_unop (f : Nat) (op : UnOp) (a : Expr) : evalExpr (f+1) (.unop op a) = (do
      let av ← evalExpr f a
      unop op av) := rfl
theorem evalExpr_table (f : Nat) (fields : List Expr) : evalExpr (f+1) (.table fields) = (do
      let vs ← evalList f fields
      allocTable { arr := vs }) := rfl
theorem evalExpr_call (f : Nat) (fn : FnRef) (args : List Expr) : evalExpr (f+1) (.call fn args) = (do
      let vs ← evalList f args
      let rs ← callFn fn vs
      pure (rs.headD .nil)) := rfl
theorem evalExpr_paren (f : Nat) (e : Expr) : evalExpr (f+1) (.paren e) = evalExpr f e := rfl

theorem evalMulti_call (f : Nat) (fn : FnRef) (args : List Expr) : evalMulti (f+1) (.call fn args) = (do
      let vs ← evalList f args
      callFn fn vs) := rfl
theorem evalMulti_one (f : Nat) (e : Expr) (h : ∀ fn args, e ≠ .call fn args) :
    evalMulti (f+1) e = (do let v ← evalExpr f e; pure [v]) :=
  evalMulti.eq_3 e f (fun fn args he => h fn args he)
theorem evalMulti_litTrue (f : Nat) : evalMulti (f+1) .litTrue = (do let v ← evalExpr f .litTrue; pure [v]) := rfl
theorem evalMulti_litFalse (f : Nat) : evalMulti (f+1) .litFalse = (do let v ← evalExpr f .litFalse; pure [v]) := rfl
theorem evalMulti_num (f : Nat) (n : Int) : evalMulti (f+1) (.num n) = (do let v ← evalExpr f (.num n); pure [v]) := rfl
theorem evalMulti_str (f : Nat) (n : String) : evalMulti (f+1) (.str n) = (do let v ← evalExpr f (.str n); pure [v]) := rfl
theorem evalMulti_var (f : Nat) (n : String) : evalMulti (f+1) (.var n) = (do let v ← evalExpr f (.var n); pure [v]) := rfl
theorem evalMulti_index (f : Nat) (t k : Expr) : evalMulti (f+1) (.index t k) = (do let v ← evalExpr f (.index t k); pure [v]) := rfl
theorem evalMulti_binop (f : Nat) (op : BinOp) (a b : Expr) :
    evalMulti (f+1) (.binop op a b) = (do let v ← evalExpr f (.binop op a b); pure [v]) := rfl
theorem evalMulti_unop (f : Nat) (op : UnOp) (a : Expr) :
    evalMulti (f+1) (.unop op a) = (do let v ← evalExpr f (.unop op a); pure [v]) := rfl
theorem evalMulti_table (f : Nat) (l : List Expr) :
    evalMulti (f+1) (.table l) = (do let v ← evalExpr f (.table l); pure [v]) := rfl

theorem evalList_nil (f : Nat) : evalList (f+1) [] = pure [] := rfl
theorem evalList_one (f : Nat) (e : Expr) : evalList (f+1) [e] = evalMulti f e := rfl
theorem evalList_cons (f : Nat) (e e' : Expr) (es : List Expr) : evalList (f+1) (e :: e' :: es) = (do
      let v ← evalExpr f e
      let vs ← evalList f (e' :: es)
      pure (v :: vs)) := rfl

theorem execStmt_localDecl (f : Nat) (names : List String) (exprs : List Expr) :
    execStmt (f+1) (.localDecl names exprs) = (do
      let vs ← evalList f exprs
      declareAll names vs
      pure none) := rfl
theorem execStmt_assignVar (f : Nat) (x : String) (e : Expr) :
    execStmt (f+1) (.assign (.var x) e) = (do
      let v ← evalExpr f e
      assignVar x v
      pure none) := rfl
theorem execStmt_assignIndex (f : Nat) (t k e : Expr) :
    execStmt (f+1) (.assign (.index t k) e) = (do
      let tv ← evalExpr f t
      let kv ← evalExpr f k
      let v ← evalExpr f e
      setIndex tv kv v
      pure none) := rfl
theorem execStmt_numFor (f : Nat) (x : String) (init limit : Expr) (step : Option Expr) (body : List Stmt) :
    execStmt (f+1) (.numFor x init limit step body) = (do
      let iv ← evalExpr f init
      let lv ← evalExpr f limit
      let sv ← match step with
        | some e => evalExpr f e
        | none => pure (.num 1)
      match iv, lv, sv with
      | .num i, .num l, .num st => numForLoop f x i l st body
      | _, _, _ => M.error "for statement: initial value, limit and step must be numbers") := rfl
theorem execStmt_ifThen (f : Nat) (c : Expr) (thn els : List Stmt) :
    execStmt (f+1) (.ifThen c thn els) = (do
      let cv ← evalExpr f c
      if cv.truthy then inScope (execBlock f thn) else inScope (execBlock f els)) := rfl
theorem execStmt_ret (f : Nat) (exprs : List Expr) :
    execStmt (f+1) (.ret exprs) = (do
      let vs ← evalList f exprs
      pure (some vs)) := rfl
theorem execStmt_callStmt (f : Nat) (fn : FnRef) (args : List Expr) :
    execStmt (f+1) (.callStmt fn args) = (do
      let vs ← evalList f args
      let _ ← callFn fn vs
      pure none) := rfl

theorem execBlock_nil (f : Nat) : execBlock (f+1) [] = pure none := rfl
theorem execBlock_cons (f : Nat) (s : Stmt) (rest : List Stmt) :
    execBlock (f+1) (s :: rest) = (do
      match ← execStmt f s with
      | some vs => pure (some vs)
      | none => execBlock f rest) := rfl

theorem numForLoop_succ (f : Nat) (x : String) (i limit step : Int) (body : List Stmt) :
    numForLoop (f+1) x i limit step body =
    if (0 < step ∧ i ≤ limit) ∨ (step ≤ 0 ∧ limit ≤ i) then do
      match ← inScope (do declare x (.num i); execBlock f body) with
      | some vs => pure (some vs)
      | none => numForLoop f x (i + step) limit step body
    else pure none := rfl

/-! ## variables and scopes -/

theorem envGet_cons (n x : String) (v : Value) (e : List (String × Value)) :
    envGet ((n, v) :: e) x = if n = x then some v else envGet e x := rfl
theorem envGet_nil (x : String) : envGet [] x = none := rfl
theorem envSet_cons (n x : String) (v w : Value) (e : List (String × Value)) :
    envSet ((n, v) :: e) x w = if n = x then some ((n, w) :: e) else (envSet e x w).map fun e' => (n, v) :: e' := rfl
theorem envSet_nil (x : String) (w : Value) : envSet [] x w = none := rfl

theorem readVar_apply (x : String) (s : State) : readVar x s =
    match envGet s.env x with
    | some v => .ok v s
    | none =>
      if x = "KEYS" then .ok (.table keysId) s
      else if x = "ARGV" then .ok (.table argvId) s
      else .unsupported s!"global variable {x}" s := rfl

theorem assignVar_apply (x : String) (v : Value) (s : State) : assignVar x v s =
    match envSet s.env x v with
    | some e => .ok () { s with env := e }
    | none => .unsupported s!"assignment to global variable {x}" s := rfl

theorem declare_apply (x : String) (v : Value) (s : State) :
    declare x v s = .ok () { s with env := (x, v) :: s.env } := rfl

theorem declareAll_nil (vs : List Value) : declareAll [] vs = pure () := by cases vs <;> rfl
theorem declareAll_cons_nil (n : String) (ns : List String) :
    declareAll (n :: ns) [] = (do declare n .nil; declareAll ns []) := rfl
theorem declareAll_cons_cons (n : String) (ns : List String) (v : Value) (vs : List Value) :
    declareAll (n :: ns) (v :: vs) = (do declare n v; declareAll ns vs) := rfl

theorem isLocal_apply (x : String) (s : State) : isLocal x s = .ok (envGet s.env x).isSome s := rfl

theorem inScope_apply {α} (m : M α) (s : State) : inScope m s =
    match m s with
    | .ok a s' => .ok a { s' with env := s'.env.drop (s'.env.length - s.env.length) }
    | r => r := rfl

/-! ## tables -/

theorem getTable_apply (id : Nat) (s : State) : getTable id s = .ok (s.heap.getD id {}) s := rfl
theorem putTable_apply (id : Nat) (t : Table) (s : State) :
    putTable id t s = .ok () { s with heap := s.heap.set id t } := rfl
theorem allocTable_apply (t : Table) (s : State) :
    allocTable t s = .ok (.table s.heap.length) { s with heap := s.heap ++ [t] } := rfl

theorem indexValue_table (id : Nat) (k : Value) (s : State) :
    indexValue (.table id) k s = .ok ((s.heap.getD id {}).get k) s := rfl
theorem indexValue_nil (k : Value) (s : State) :
    indexValue .nil k s = .error "attempt to index a non-table object(nil)" s := rfl
theorem setIndex_table (id : Nat) (k v : Value) (s : State) (hk : k ≠ .nil) :
    setIndex (.table id) k v s = .ok () { s with heap := s.heap.set id ((s.heap.getD id {}).set k v) } := by
  simp only [setIndex, hk, if_false]
  rfl

/-- the array part read at a position inside `[1, 2^26)`. -/
theorem Table.get_num (t : Table) (i : Nat) (h1 : 1 ≤ i) (h2 : i < maxArrayIndex) :
    t.get (.num (i : Int)) = t.arr.getD (i - 1) .nil := by
  have : arrayPos (.num (i : Int)) = some (i - 1) := by
    unfold arrayPos
    have a : (1 : Int) ≤ (i : Int) := by omega
    have b : (i : Int) < (maxArrayIndex : Int) := by omega
    simp only [a, b, and_self, if_true, Int.toNat_natCast]
  simp only [Table.get, this]

/-! ## builtins -/

theorem callFn_tonumber_str (x : String) (s : State) (h : envGet s.env "tonumber" = none) :
    callFn (.global "tonumber") [.str x] s =
      match luaToNumber x with
      | .num n => .ok [.num n] s
      | .nil => .ok [.nil] s
      | .unsupported why => .unsupported why s := by
  simp only [callFn, bind_apply, isLocal_apply, h, Option.isSome_none]
  cases luaToNumber x <;> rfl

theorem callFn_tonumber_num (n : Int) (s : State) (h : envGet s.env "tonumber" = none) :
    callFn (.global "tonumber") [.num n] s = .ok [.num n] s := by
  simp only [callFn, bind_apply, isLocal_apply, h, Option.isSome_none]
  rfl

theorem callFn_tonumber_bool (b : Bool) (s : State) (h : envGet s.env "tonumber" = none) :
    callFn (.global "tonumber") [.bool b] s = .ok [.nil] s := by
  simp only [callFn, bind_apply, isLocal_apply, h, Option.isSome_none]
  rfl

theorem callFn_tonumber_nil (s : State) (h : envGet s.env "tonumber" = none) :
    callFn (.global "tonumber") [.nil] s = .ok [.nil] s := by
  simp only [callFn, bind_apply, isLocal_apply, h, Option.isSome_none]
  rfl

theorem callFn_tostring_num (n : Int) (s : State) (h : envGet s.env "tostring" = none) :
    callFn (.global "tostring") [.num n] s = .ok [.str (renderInt n)] s := by
  simp only [callFn, bind_apply, isLocal_apply, h, Option.isSome_none]
  rfl

theorem callFn_unpack (id : Nat) (s : State) (h : envGet s.env "unpack" = none) :
    callFn (.global "unpack") [.table id] s =
      (let tb := s.heap.getD id {}
       if tb.len ≤ unpackSafe then .ok ((List.range tb.len).map fun i => tb.arr.getD i .nil) s
       else if tb.len ≥ unpackOverflow then .error "registry overflow" s
       else .unsupported "unpack near the data stack limit" s) := by
  simp only [callFn, bind_apply, isLocal_apply, h, Option.isSome_none]

  simp only [List.any_nil, Bool.false_eq_true, if_false, bind_apply, getTable_apply]
  split
  · rfl
  · split <;> rfl

theorem callFn_redis_call (args : List Value) (s : State) (h : envGet s.env "redis" = none) :
    callFn (.field "redis" "call") args s = redisCall true args s := by
  simp only [callFn, bind_apply, isLocal_apply, h, Option.isSome_none]
  rfl

theorem callFn_redis_pcall (args : List Value) (s : State) (h : envGet s.env "redis" = none) :
    callFn (.field "redis" "pcall") args s = redisCall false args s := by
  simp only [callFn, bind_apply, isLocal_apply, h, Option.isSome_none]
  rfl

/-! ## operators -/

theorem checkNum_ok {n : Int} (h : n.natAbs ≤ numLimit) (s : State) : checkNum n s = .ok (.num n) s := by
  unfold checkNum
  simp only [Nat.not_lt.mpr h, if_false]
  rfl

theorem checkNum_big {n : Int} (h : numLimit < n.natAbs) (s : State) :
    checkNum n s = .unsupported "number beyond 2^53" s := by
  unfold checkNum
  simp only [h, if_true]
  rfl

def arithErr (a b : Value) : String := s!"cannot perform arithmetic between {a.typeName} and {b.typeName}"
def compareErr (a b : Value) : String := s!"attempt to compare {a.typeName} with {b.typeName}"

theorem binop_concat_str_str (a b : String) (s : State) :
    binop .concat (.str a) (.str b) s = .ok (.str (a ++ b)) s := rfl
theorem binop_add_num_num (x y : Int) (s : State) : binop .add (.num x) (.num y) s = checkNum (x + y) s := rfl
theorem binop_sub_num_num (x y : Int) (s : State) : binop .sub (.num x) (.num y) s = checkNum (x - y) s := rfl
theorem binop_add_nil_num (y : Int) (s : State) :
    binop .add .nil (.num y) s = .error (arithErr .nil (.num y)) s := rfl
theorem binop_add_num_nil (y : Int) (s : State) :
    binop .add (.num y) .nil s = .error (arithErr (.num y) .nil) s := rfl
theorem binop_add_nil_nil (s : State) :
    binop .add .nil .nil s = .error (arithErr .nil .nil) s := rfl
theorem binop_lt_num_num (x y : Int) (s : State) :
    binop .lt (.num x) (.num y) s = .ok (.bool (decide (x < y))) s := rfl
theorem binop_lt_nil_num (y : Int) (s : State) :
    binop .lt .nil (.num y) s = .error (compareErr .nil (.num y)) s := rfl
theorem binop_eq_apply (a b : Value) (s : State) : binop .eq a b s = .ok (.bool (decide (a = b))) s := rfl
theorem binop_ne_apply (a b : Value) (s : State) : binop .ne a b s = .ok (.bool (!decide (a = b))) s := rfl
theorem unop_neg_num (n : Int) (s : State) : unop .neg (.num n) s = .ok (.num (-n)) s := rfl

theorem unop_len_table (id : Nat) (s : State) :
    unop .len (.table id) s = .ok (.num ((s.heap.getD id {}).len : Nat)) s := rfl

theorem binop_div_exact {x y : Int} (hy : y ≠ 0) (hm : x % y = 0) (s : State) :
    binop .div (.num x) (.num y) s = checkNum (x / y) s := by
  show arith .div x y s = _
  simp only [arith, hy, if_false, hm, if_true]

/-! ## `redis.call` / `redis.pcall` -/

theorem cmdArgs_nil : cmdArgs [] = some [] := rfl
theorem cmdArgs_str (a : String) (vs : List Value) :
    cmdArgs (.str a :: vs) = (cmdArgs vs).map (a :: ·) := by
  show (match strOrNum (.str a), cmdArgs vs with | some s, some ss => some (s :: ss) | _, _ => none) = _
  cases cmdArgs vs <;> rfl
theorem cmdArgs_num (n : Int) (vs : List Value) :
    cmdArgs (.num n :: vs) = (cmdArgs vs).map (renderInt n :: ·) := by
  show (match strOrNum (.num n), cmdArgs vs with | some s, some ss => some (s :: ss) | _, _ => none) = _
  cases cmdArgs vs <;> rfl

theorem cmdArgs_map_str (l : List String) : cmdArgs (l.map .str) = some l := by
  induction l with
  | nil => rfl
  | cons a l ih => rw [List.map_cons, cmdArgs_str, ih]; rfl

theorem cmdArgs_map_num (l : List Nat) :
    cmdArgs (l.map fun n : Nat => Value.num (n : Int)) = some (l.map decimal) := by
  induction l with
  | nil => rfl
  | cons a l ih => rw [List.map_cons, cmdArgs_num, ih]; rfl

/-- a command with a key: what `redis.call` (`ff = true`) / `redis.pcall` does. -/
theorem redisCall_key (ff : Bool) (name k : String) (vals : List Value) (cargs : List String) (s : State)
    (h : cmdArgs vals = some cargs) :
    redisCall ff (.str name :: .str k :: vals) s =
      match redisCommand name (k :: cargs) s.store with
      | .ok st r => (do let v ← replyToLua r; pure [v]) { s with store := st, log := k :: s.log }
      | .error msg => if ff then .error msg { s with log := k :: s.log } else .ok [.nil] { s with log := k :: s.log }
      | .unsupported why => .unsupported why { s with log := k :: s.log } := by
  unfold redisCall
  simp only [cmdArgs_str, h, Option.map_some]
  cases redisCommand name (k :: cargs) s.store <;> rfl

theorem replyToLua_int (n : Int) (s : State) : replyToLua (.int n) s = .ok (.num n) s := rfl
theorem replyToLua_bulk (v : String) (s : State) : replyToLua (.bulk v) s = .ok (.str v) s := rfl
theorem replyToLua_nil (s : State) : replyToLua .nil s = .ok (.bool false) s := rfl
theorem replyToLua_status (v : String) (s : State) : replyToLua (.status v) s =
    .ok (.table s.heap.length) { s with heap := s.heap ++ [{ hash := [(.str "ok", .str v)] }] } := rfl
theorem replyToLua_list (l : List String) (s : State) : replyToLua (.list l) s =
    .ok (.table s.heap.length) { s with heap := s.heap ++ [{ arr := l.map .str }] } := rfl

/-! ## the commands of the Count-Min scripts -/

theorem intArg_decimal {n : Nat} (h : n ≤ numLimit) (k : Int → CmdRes) : intArg (decimal n) k = k n := by
  unfold intArg; rw [goAtoi_decimal h]

theorem resolveIndex_nat (len c : Nat) : resolveIndex len (c : Int) = if c < len then some c else none := by
  unfold resolveIndex
  simp only [Int.natCast_nonneg, if_true, Int.toNat_natCast]

theorem redisCommand_LINDEX (k : String) {c : Nat} (h : c ≤ numLimit) (st : Store) :
    redisCommand "LINDEX" [k, decimal c] st =
      match st k with
      | none => .ok st .nil
      | some (.list l) => (match l[c]? with | some v => .ok st (.bulk v) | none => .ok st .nil)
      | some _ => .error msgWrongType := by
  show (intArg (decimal c) fun n => if decimal c = "-0" then CmdRes.error msgInvalidInt else _) = _
  rw [intArg_decimal h]
  have h0 : decimal c ≠ "-0" := renderInt_natCast_ne_minus_zero c
  simp only [h0, if_false, Int.natCast_nonneg, if_true, Int.toNat_natCast, liftCmd, cmdLINDEX]
  cases hk : st k with
  | none => rfl
  | some val =>
    cases val with
    | list l => simp only []; cases l[c]? <;> rfl
    | _ => rfl

theorem redisCommand_LSET (k v : String) {c : Nat} (h : c ≤ numLimit) (st : Store) :
    redisCommand "LSET" [k, decimal c, v] st =
      match st k with
      | none => .error "ERR no such key"
      | some (.list l) =>
        if c < l.length then .ok (st.set k (.list (l.set c v))) (.status "OK") else .error "ERR index out of range"
      | some _ => .error msgWrongType := by
  show (intArg (decimal c) fun n => _) = _
  rw [intArg_decimal h]
  cases hk : st k with
  | none => rfl
  | some val =>
    cases val with
    | list l =>
      simp only [resolveIndex_nat]
      by_cases hc : c < l.length
      · simp only [hc, if_true, liftCmd, cmdLSET, hk]
      · simp only [hc, if_false]
    | _ => rfl

theorem redisCommand_LRANGE (k : String) (st : Store) :
    redisCommand "LRANGE" [k, "0", "-1"] st =
      match st k with
      | none => .ok st (.list [])
      | some (.list l) => .ok st (.list l)
      | some _ => .error msgWrongType := by
  have h0 : goAtoi "0" = .num 0 := by decide
  have h1 : goAtoi "-1" = .num (-1) := by decide
  show (intArg "0" fun s => intArg "-1" fun e => _) = _
  simp only [intArg, h0, h1]
  cases hk : st k with
  | none => simp only [liftCmd, cmdLRANGE, hk]; rfl
  | some val =>
    cases val with
    | list l => simp only [liftCmd, cmdLRANGE, hk]; rfl
    | _ => rfl

theorem redisCommand_DEL (k : String) (st : Store) :
    redisCommand "DEL" [k] st = .ok (st.del k) (.int (if (st k).isSome then 1 else 0)) := by
  show (let (st', n) := delAll st [k]; CmdRes.ok st' (.int n)) = _
  simp only [delAll, cmdDEL]
  cases (st k).isSome <;> rfl

theorem redisCommand_LPUSH (k v : String) (vs : List String) (st : Store) :
    redisCommand "LPUSH" (k :: v :: vs) st =
      match st k with
      | none => .ok (st.set k (.list (v :: vs).reverse)) (.int (v :: vs).length)
      | some (.list l) => .ok (st.set k (.list ((v :: vs).reverse ++ l))) (.int ((v :: vs).length + l.length))
      | some _ => .error msgWrongType := by
  show (match cmdLPUSH k (v :: vs) st with
     | (st', some _) => CmdRes.ok st' (.int (listLength st' k))
     | (_, none) => .error msgWrongType) = _
  cases hk : st k with
  | none =>
    simp only [cmdLPUSH, hk, reduceCtorEq, if_false, listLength, Store.set, if_true, List.length_reverse]
  | some val =>
    cases val with
    | list l =>
      simp only [cmdLPUSH, hk, reduceCtorEq, if_false, listLength, Store.set, if_true, List.length_reverse,
        List.length_append]
      rfl
    | _ => simp only [cmdLPUSH, hk, reduceCtorEq, if_false]

theorem redisCommand_LPUSH_nil (k : String) (st : Store) :
    redisCommand "LPUSH" [k] st = .error (msgWrongNumber "lpush") := rfl

theorem redisCommand_RPUSH (k v : String) (vs : List String) (st : Store) :
    redisCommand "RPUSH" (k :: v :: vs) st =
      match st k with
      | none => .ok (st.set k (.list (v :: vs))) (.int (v :: vs).length)
      | some (.list l) => .ok (st.set k (.list (l ++ (v :: vs)))) (.int (l.length + (v :: vs).length))
      | some _ => .error msgWrongType := by
  show (match cmdRPUSH k (v :: vs) st with
     | (st', some _) => CmdRes.ok st' (.int (listLength st' k))
     | (_, none) => .error msgWrongType) = _
  cases hk : st k with
  | none =>
    simp only [cmdRPUSH, hk, reduceCtorEq, if_false, listLength, Store.set, if_true]
  | some val =>
    cases val with
    | list l =>
      simp only [cmdRPUSH, hk, reduceCtorEq, if_false, listLength, Store.set, if_true, List.length_append]
      rfl
    | _ => simp only [cmdRPUSH, hk, reduceCtorEq, if_false]

theorem redisCommand_RPUSH_nil (k : String) (st : Store) :
    redisCommand "RPUSH" [k] st = .error (msgWrongNumber "rpush") := rfl

/-! ## the loop lemma -/

/-- a numeric `for` with a positive step that makes exactly `n` rounds (`i0, i0 + step, …`):
    `P k` holds before round `k` (`k = 0 … n`), every early exit of the body (a `return`, an error, …)
    satisfies `Q`, and so does the normal end after `n` rounds.  One round of the body needs fuel `K`;
    the loop needs `n + K + 1`. -/
theorem numForLoop_spec {x : String} {body : List Stmt} {step limit i0 : Int} (hstep : 0 < step)
    (K n : Nat) (P : Nat → State → Prop) (Q : Res (Option (List Value)) → Prop)
    (hin : ∀ j, j < n → i0 + j * step ≤ limit) (hout : limit < i0 + n * step)
    (hbody : ∀ j, j < n → ∀ s f, P j s →
      match inScope (do declare x (.num (i0 + j * step)); execBlock (f + K) body) s with
      | .ok none s' => P (j + 1) s'
      | r => Q r)
    (hend : ∀ s, P n s → Q (.ok none s)) :
    ∀ (m k F : Nat) (s : State), k + m = n → m + K + 1 ≤ F → P k s →
      Q (numForLoop F x (i0 + k * step) limit step body s) := by
  intro m
  induction m with
  | zero =>
    intro k F s hk hF hP
    obtain ⟨F', rfl⟩ : ∃ F', F = F' + 1 := ⟨F - 1, by omega⟩
    have hkn : k = n := by omega
    subst hkn
    have hc : ¬ ((0 < step ∧ i0 + (k : Int) * step ≤ limit) ∨ (step ≤ 0 ∧ limit ≤ i0 + (k : Int) * step)) := by
      intro h
      rcases h with ⟨_, h⟩ | ⟨h, _⟩
      · exact absurd hout (Int.not_lt.mpr h)
      · exact absurd hstep (Int.not_lt.mpr h)
    rw [numForLoop_succ]
    simp only [hc, if_false]
    exact hend s hP
  | succ m ih =>
    intro k F s hk hF hP
    obtain ⟨F', rfl⟩ : ∃ F', F = F' + 1 := ⟨F - 1, by omega⟩
    have hkn : k < n := by omega
    have hc : (0 < step ∧ i0 + (k : Int) * step ≤ limit) ∨ (step ≤ 0 ∧ limit ≤ i0 + (k : Int) * step) :=
      Or.inl ⟨hstep, hin k hkn⟩
    obtain ⟨f, rfl⟩ : ∃ f, F' = f + K := ⟨F' - K, by omega⟩
    have hb := hbody k hkn s f hP
    rw [numForLoop_succ]
    simp only [hc, if_true, bind_apply]
    generalize inScope (do declare x (.num (i0 + k * step)); execBlock (f + K) body) s = r at hb ⊢
    cases r with
    | ok a s' =>
      cases a with
      | none =>
        simp only at hb ⊢
        have := ih (k + 1) (f + K) s' (by omega) (by omega) hb
        have e : i0 + ((k + 1 : Nat) : Int) * step = i0 + (k : Int) * step + step := by
          rw [Int.natCast_succ, Int.add_mul, Int.one_mul, Int.add_assoc]
        rw [e] at this
        exact this
      | some vs => exact hb
    | error e s' => exact hb
    | unsupported w s' => exact hb
    | outOfFuel s' => exact hb

/-- `numForLoop_spec` from the first round. -/
theorem numForLoop_spec0 {x : String} {body : List Stmt} {step limit i0 : Int} (hstep : 0 < step)
    (K n : Nat) (P : Nat → State → Prop) (Q : Res (Option (List Value)) → Prop)
    (hin : ∀ j, j < n → i0 + j * step ≤ limit) (hout : limit < i0 + n * step)
    (hbody : ∀ j, j < n → ∀ s f, P j s →
      match inScope (do declare x (.num (i0 + j * step)); execBlock (f + K) body) s with
      | .ok none s' => P (j + 1) s'
      | r => Q r)
    (hend : ∀ s, P n s → Q (.ok none s))
    (F : Nat) (s : State) (hF : n + K + 1 ≤ F) (hP : P 0 s) :
    Q (numForLoop F x i0 limit step body s) := by
  have := numForLoop_spec hstep K n P Q hin hout hbody hend n 0 F s (by omega) hF hP
  simpa using this

/-! ## `ipairs` loops -/

theorem ipairsLoop_succ (f : Nat) (names : List String) (id i : Nat) (body : List Stmt) :
    ipairsLoop (f+1) names id i body = (do
      let tb ← getTable id
      match tb.get (.num i) with
      | .nil => pure none
      | v =>
        match ← inScope (do declareAll names [.num i, v]; execBlock f body) with
        | some vs => pure (some vs)
        | none => ipairsLoop f names id (i + 1) body) := rfl

theorem execStmt_ipairsFor (f : Nat) (names : List String) (t : Expr) (body : List Stmt) :
    execStmt (f+1) (.ipairsFor names t body) = (do
      if (← isLocal "ipairs") then M.unsupported "call of a local variable" else
      let vs ← evalList f [t]
      match vs.headD .nil with
      | .table id => ipairsLoop f names id 1 body
      | _ => M.error "bad argument #1 to ipairs (table expected)") := rfl

/-- `for n1, n2 in ipairs(t)` over a table (heap position `id`) whose entries `1 … n` are non-nil and whose
    entry `n + 1` is nil, as long as the invariant holds: `P k` before round `k`, `Q` for every early exit
    and for the normal end.  `vals k` is the value at position `k + 1`. -/
theorem ipairsLoop_spec {names : List String} {body : List Stmt} {id : Nat}
    (K n : Nat) (vals : Nat → Value) (P : Nat → State → Prop) (Q : Res (Option (List Value)) → Prop)
    (hget : ∀ j, j < n → ∀ s, P j s → (s.heap.getD id {}).get (.num ((j + 1 : Nat) : Int)) = vals j)
    (hval : ∀ j, j < n → vals j ≠ .nil)
    (hstop : ∀ s, P n s → (s.heap.getD id {}).get (.num ((n + 1 : Nat) : Int)) = .nil)
    (hbody : ∀ j, j < n → ∀ s f, P j s →
      match inScope (do declareAll names [.num ((j + 1 : Nat) : Int), vals j]; execBlock (f + K) body) s with
      | .ok none s' => P (j + 1) s'
      | r => Q r)
    (hend : ∀ s, P n s → Q (.ok none s)) :
    ∀ (m k F : Nat) (s : State), k + m = n → m + K + 1 ≤ F → P k s →
      Q (ipairsLoop F names id (k + 1) body s) := by
  intro m
  induction m with
  | zero =>
    intro k F s hk hF hP
    obtain ⟨F', rfl⟩ : ∃ F', F = F' + 1 := ⟨F - 1, by omega⟩
    have hkn : k = n := by omega
    subst hkn
    rw [ipairsLoop_succ]
    simp only [bind_apply, getTable_apply]
    rw [hstop s hP]
    exact hend s hP
  | succ m ih =>
    intro k F s hk hF hP
    obtain ⟨F', rfl⟩ : ∃ F', F = F' + 1 := ⟨F - 1, by omega⟩
    have hkn : k < n := by omega
    obtain ⟨f, rfl⟩ : ∃ f, F' = f + K := ⟨F' - K, by omega⟩
    have hb := hbody k hkn s f hP
    have hg := hget k hkn s hP
    have hv := hval k hkn
    rw [ipairsLoop_succ]
    simp only [bind_apply, getTable_apply]
    rw [hg]
    generalize vals k = v at hb hv ⊢
    cases v with
    | nil => exact absurd rfl hv
    | _ =>
      simp only [bind_apply]
      generalize inScope _ s = r at hb ⊢
      cases r with
      | ok a s' =>
        cases a with
        | none => exact ih (k + 1) (f + K) s' (by omega) (by omega) hb
        | some vs => exact hb
      | error e s' => exact hb
      | unsupported w s' => exact hb
      | outOfFuel s' => exact hb

/-- `ipairsLoop_spec` from the first position. -/
theorem ipairsLoop_spec0 {names : List String} {body : List Stmt} {id : Nat}
    (K n : Nat) (vals : Nat → Value) (P : Nat → State → Prop) (Q : Res (Option (List Value)) → Prop)
    (hget : ∀ j, j < n → ∀ s, P j s → (s.heap.getD id {}).get (.num ((j + 1 : Nat) : Int)) = vals j)
    (hval : ∀ j, j < n → vals j ≠ .nil)
    (hstop : ∀ s, P n s → (s.heap.getD id {}).get (.num ((n + 1 : Nat) : Int)) = .nil)
    (hbody : ∀ j, j < n → ∀ s f, P j s →
      match inScope (do declareAll names [.num ((j + 1 : Nat) : Int), vals j]; execBlock (f + K) body) s with
      | .ok none s' => P (j + 1) s'
      | r => Q r)
    (hend : ∀ s, P n s → Q (.ok none s))
    (F : Nat) (s : State) (hF : n + K + 1 ≤ F) (hP : P 0 s) :
    Q (ipairsLoop F names id 1 body s) :=
  ipairsLoop_spec K n vals P Q hget hval hstop hbody hend n 0 F s (by omega) hF hP

theorem Table.get_push (arr : List Value) (h : List (Value × Value)) (v : Value)
    (hlen : arr.length + 1 < maxArrayIndex) :
    (⟨arr ++ [v], h⟩ : Table).get (.num ((arr.length + 1 : Nat) : Int)) = v := by
  rw [Table.get_num _ _ (by omega) hlen]
  simp [List.getD_eq_getElem?_getD]

/-! ## small table facts -/

theorem Table.get_one (t : Table) : t.get (.num 1) = t.arr.getD 0 .nil := rfl
theorem Table.get_two (t : Table) : t.get (.num 2) = t.arr.getD 1 .nil := rfl
theorem Table.get_three (t : Table) : t.get (.num 3) = t.arr.getD 2 .nil := rfl

theorem getD_append_length {α} (H : List α) (t d : α) (l : List α) : (H ++ t :: l).getD H.length d = t := by
  simp [List.getD_eq_getElem?_getD]

theorem set_append_length {α} (H : List α) (t t' : α) (l : List α) : (H ++ t :: l).set H.length t' = H ++ t' :: l := by
  simp

theorem Table.set_push (arr : List Value) (h : List (Value × Value)) (v : Value)
    (hlen : arr.length + 1 < maxArrayIndex) :
    (⟨arr, h⟩ : Table).set (.num ((arr.length + 1 : Nat) : Int)) v = ⟨arr ++ [v], h⟩ := by
  have : arrayPos (.num ((arr.length + 1 : Nat) : Int)) = some arr.length := by
    unfold arrayPos
    have a : (1 : Int) ≤ ((arr.length + 1 : Nat) : Int) := by omega
    have b : ((arr.length + 1 : Nat) : Int) < (maxArrayIndex : Int) := by omega
    simp only [a, b, and_self, if_true, Int.toNat_natCast, Nat.add_sub_cancel]
  simp only [Table.set, this, Nat.lt_irrefl, if_false, Nat.sub_self, List.replicate_zero, List.append_nil]

theorem Table.len_of_no_nil (arr : List Value) (h : List (Value × Value)) (hn : ∀ v ∈ arr, v ≠ .nil) :
    (⟨arr, h⟩ : Table).len = arr.length := by
  unfold Table.len
  have : arr.reverse.dropWhile (· = .nil) = arr.reverse := by
    cases hr : arr.reverse with
    | nil => rfl
    | cons a l =>
      have : a ≠ .nil := hn a (by rw [← List.mem_reverse, hr]; exact List.mem_cons_self ..)
      rw [List.dropWhile_cons]; simp [this]
  simp only [this, List.length_reverse]

theorem getD_append_length1 {α} (H : List α) (a t d : α) (l : List α) :
    (H ++ a :: t :: l).getD (H.length + 1) d = t := by
  simp [List.getD_eq_getElem?_getD]

theorem getD_append_length2 {α} (H : List α) (a b t d : α) (l : List α) :
    (H ++ a :: b :: t :: l).getD (H.length + 2) d = t := by
  simp [List.getD_eq_getElem?_getD]

theorem set_append_length2 {α} (H : List α) (a b t t' : α) (l : List α) :
    (H ++ a :: b :: t :: l).set (H.length + 2) t' = H ++ a :: b :: t' :: l := by
  simp [List.set_append_right]

theorem unpack_eq (arr : List Value) : (List.range arr.length).map (fun i => arr.getD i .nil) = arr := by
  apply List.ext_getElem
  · simp
  · intro i h1 h2
    simp [List.getD_eq_getElem?_getD, h2]

theorem getD_map_str (l : List String) (k : Nat) :
    (l.map Value.str).getD k .nil = (match l[k]? with | some v => .str v | none => .nil) := by
  rw [List.getD_eq_getElem?_getD, List.getElem?_map]
  cases l[k]? <;> rfl

/-- the simp set that evaluates straight-line code on a state with a concrete environment. -/
macro "luab_simp" "[" ts:Lean.Parser.Tactic.simpLemma,* "]" : tactic =>
  `(tactic| simp only [bind_apply, pure_apply, error_apply, unsupported_apply, modify_apply,
      evalExpr_litNil, evalExpr_litTrue, evalExpr_litFalse, evalExpr_num, evalExpr_str, evalExpr_var,
      evalExpr_index, evalExpr_or, evalExpr_and, evalExpr_binop, evalExpr_unop, evalExpr_table, evalExpr_call,
      evalExpr_paren, evalMulti_call, evalMulti_litTrue, evalMulti_litFalse, evalMulti_num, evalMulti_str,
      evalMulti_var, evalMulti_index, evalMulti_binop, evalMulti_unop, evalMulti_table,
      evalList_nil, evalList_one, evalList_cons,
      execStmt_localDecl, execStmt_assignVar, execStmt_assignIndex, execStmt_numFor, execStmt_ifThen,
      execStmt_ret, execStmt_callStmt, execBlock_nil, execBlock_cons,
      envGet_cons, envGet_nil, envSet_cons, envSet_nil, readVar_apply, assignVar_apply, declare_apply,
      declareAll_nil, declareAll_cons_nil, declareAll_cons_cons, inScope_apply,
      getTable_apply, putTable_apply, allocTable_apply, indexValue_table, keysId, argvId,
      callFn_tonumber_str, callFn_tonumber_num, callFn_tonumber_bool, callFn_tonumber_nil,
      callFn_tostring_num, callFn_redis_call, callFn_redis_pcall,
      binop_concat_str_str, binop_add_num_num, binop_sub_num_num, binop_add_nil_num, binop_lt_num_num,
      binop_lt_nil_num, binop_eq_apply, binop_ne_apply, unop_neg_num,
      cmdArgs_nil, cmdArgs_str, cmdArgs_num, Option.map_some,
      replyToLua_int, replyToLua_bulk, replyToLua_nil, replyToLua_status, replyToLua_list,
      Table.get_one, Table.get_two, Table.get_three,
      List.getD_cons_zero, List.getD_cons_succ, List.headD_cons, List.headD_nil, List.map_cons, List.map_nil,
      List.length_cons, List.length_nil, List.drop_succ_cons, List.drop_zero,
      Option.map_none, Option.isSome_none, Option.isSome_some,
      Value.truthy, String.reduceEq, String.reduceNe, reduceIte, reduceCtorEq, ne_eq, not_false_eq_true, not_true_eq_false,
      Nat.reduceAdd, Nat.reduceSub, Nat.add_sub_cancel, Bool.false_eq_true, Bool.true_eq_false,
      decide_true, decide_false, Bool.not_true, Bool.not_false, if_true, if_false, $ts,*])

end Gostatix.LuaCMS
