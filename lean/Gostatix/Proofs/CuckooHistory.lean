/-
  Gostatix.Proofs.CuckooHistory — histories of insert / remove / lookup operations on a cuckoo
  filter, the per-key and global accounting of successful operations.
-/
import Gostatix.Proofs.CuckooFilter
set_option linter.unusedSectionVars false
namespace Gostatix.Cuckoo

/-- one operation of a history; the element is given by its fingerprint and first bucket,
    the second bucket is `alt i1 fp`; an insert carries its random choices -/
inductive COp (F : Type) where
  | insert (fp : F) (i1 : Nat) (destructive side : Bool) (slots : List Nat)
  | remove (fp : F) (i1 : Nat)
  | lookup (fp : F) (i1 : Nat)

section
variable {B F : Type} [DecidableEq F] [Inhabited B] {o : BucketOps B F} {emp : F}

/-- run one operation: new state and the Boolean the Go method returns
    (`Insert` panicking with "filter is full" is `false`) -/
def step (o : BucketOps B F) (alt : Nat → F → Nat) (c : Cuckoo B) : COp F → Cuckoo B × Bool
  | .insert fp i1 d side slots =>
    ((insert o alt c fp i1 (alt i1 fp) d side slots).val,
     (insert o alt c fp i1 (alt i1 fp) d side slots).isOk)
  | .remove fp i1 => remove o c fp i1 (alt i1 fp)
  | .lookup fp i1 => (c, lookup o c fp i1 (alt i1 fp))

def run (o : BucketOps B F) (alt : Nat → F → Nat) (c : Cuckoo B) (h : List (COp F)) : Cuckoo B :=
  h.foldl (fun c op => (step o alt c op).1) c

@[simp] theorem run_nil (alt : Nat → F → Nat) (c : Cuckoo B) : run o alt c [] = c := rfl
@[simp] theorem run_cons (alt : Nat → F → Nat) (c : Cuckoo B) (op : COp F) (h : List (COp F)) :
    run o alt c (op :: h) = run o alt (step o alt c op).1 h := rfl

/-- 1 if `op` is a successful insert of an element selected by `sel` -/
def insHit (o : BucketOps B F) (alt : Nat → F → Nat) (sel : F → Nat → Bool) (c : Cuckoo B) :
    COp F → Nat
  | .insert fp i1 d side slots =>
    if (insert o alt c fp i1 (alt i1 fp) d side slots).isOk = true ∧ sel fp i1 = true then 1 else 0
  | _ => 0

/-- 1 if `op` is a successful remove of an element selected by `sel` -/
def remHit (o : BucketOps B F) (alt : Nat → F → Nat) (sel : F → Nat → Bool) (c : Cuckoo B) :
    COp F → Nat
  | .remove fp i1 => if (remove o c fp i1 (alt i1 fp)).2 = true ∧ sel fp i1 = true then 1 else 0
  | _ => 0

/-- number of successful inserts of selected elements in the history `h` run from `c` -/
def okInserts (o : BucketOps B F) (alt : Nat → F → Nat) (sel : F → Nat → Bool) :
    Cuckoo B → List (COp F) → Nat
  | _, [] => 0
  | c, op :: h => insHit o alt sel c op + okInserts o alt sel (step o alt c op).1 h

/-- number of successful removes of selected elements in the history `h` run from `c` -/
def okRemoves (o : BucketOps B F) (alt : Nat → F → Nat) (sel : F → Nat → Bool) :
    Cuckoo B → List (COp F) → Nat
  | _, [] => 0
  | c, op :: h => remHit o alt sel c op + okRemoves o alt sel (step o alt c op).1 h

/-- elements with the key (fingerprint `g`, orbit of bucket `j`) -/
def keySel (alt : Nat → F → Nat) (g : F) (j : Nat) : F → Nat → Bool :=
  fun fp i1 => decide (fp = g ∧ (j = i1 ∨ j = alt i1 fp))

/-- every element -/
def allSel : F → Nat → Bool := fun _ _ => true

/-- the operation's element has valid positions (and valid slot choices) -/
def ValidOp (emp : F) (n s : Nat) : COp F → Prop
  | .insert fp i1 _ _ slots => fp ≠ emp ∧ i1 < n ∧ ∀ x ∈ slots, x < s
  | .remove fp i1 => fp ≠ emp ∧ i1 < n
  | .lookup fp i1 => fp ≠ emp ∧ i1 < n

/-- `op` is not a destructive insert that fails -/
def OpSafe (o : BucketOps B F) (alt : Nat → F → Nat) (c : Cuckoo B) : COp F → Prop
  | .insert fp i1 true side slots => (insert o alt c fp i1 (alt i1 fp) true side slots).isOk = true
  | _ => True

/-- no destructive insert of the history fails -/
def NoDestructiveFail (o : BucketOps B F) (alt : Nat → F → Nat) : Cuckoo B → List (COp F) → Prop
  | _, [] => True
  | c, op :: h => OpSafe o alt c op ∧ NoDestructiveFail o alt (step o alt c op).1 h

/-- every insert of the history is non-destructive -/
def NonDestructive : List (COp F) → Prop
  | [] => True
  | .insert _ _ d _ _ :: h => d = false ∧ NonDestructive h
  | _ :: h => NonDestructive h

theorem noDestructiveFail_of_nonDestructive (alt : Nat → F → Nat) (c : Cuckoo B) (h : List (COp F))
    (hn : NonDestructive h) : NoDestructiveFail o alt c h := by
  induction h generalizing c with
  | nil => trivial
  | cons op h ih =>
    cases op with
    | insert fp i1 d side slots =>
      obtain ⟨hd, hn⟩ := hn
      subst hd
      exact ⟨trivial, ih _ hn⟩
    | remove fp i1 => exact ⟨trivial, ih _ hn⟩
    | lookup fp i1 => exact ⟨trivial, ih _ hn⟩

/-- well-formed with the given table geometry -/
def Inv (L : LawfulBucket o emp) (n s : Nat) (c : Cuckoo B) : Prop := WF L c ∧ c.n = n ∧ c.bsize = s

/-- one operation keeps the filter well-formed and accounts for `length` -/
theorem step_inv (L : LawfulBucket o emp) (alt : Nat → F → Nat) (n s : Nat)
    (hAlt : ∀ j f, j < n → alt j f < n) (hs : 0 < s) (c : Cuckoo B) (op : COp F)
    (hI : Inv L n s c) (hv : ValidOp emp n s op) :
    Inv L n s (step o alt c op).1 ∧
    (step o alt c op).1.length + remHit o alt allSel c op = c.length + insHit o alt allSel c op ∧
    tocc L (step o alt c op).1.buckets + remHit o alt allSel c op
      = tocc L c.buckets + insHit o alt allSel c op := by
  obtain ⟨hwf, hn, hb⟩ := hI
  subst hn; subst hb
  cases op with
  | insert fp i1 d side slots =>
    obtain ⟨hfp, hi1, hsl⟩ := hv
    have hi2 := hAlt i1 fp hi1
    simp only [step, insHit, remHit, allSel, and_true]
    cases h : insert o alt c fp i1 (alt i1 fp) d side slots with
    | ok c' =>
      have sp := insert_ok_spec L alt c fp i1 _ d side slots c' hwf hAlt hs hfp hi1 hi2 hsl h
      exact ⟨⟨sp.wf, sp.params.1, sp.params.2.1⟩, by simp [CRes.val, CRes.isOk, sp.length],
        by simp [CRes.val, CRes.isOk, sp.tocc]⟩
    | full c' =>
      have sp := insert_full_spec L alt c fp i1 _ d side slots c' hwf hAlt hs hfp hi1 hi2 hsl h
      exact ⟨⟨sp.wf, sp.params.1, sp.params.2.1⟩, by simp [CRes.val, CRes.isOk, sp.length],
        by simp [CRes.val, CRes.isOk, sp.tocc]⟩
  | remove fp i1 =>
    obtain ⟨hfp, hi1⟩ := hv
    have hi2 := hAlt i1 fp hi1
    simp only [step, insHit, remHit, allSel, and_true]
    cases hl : lookup o c fp i1 (alt i1 fp) with
    | true =>
      obtain ⟨h1, sp⟩ := remove_present L c fp i1 _ hwf hfp hi1 hi2 hl
      have := sp.length
      have := sp.tocc
      exact ⟨⟨sp.wf, sp.params.1, sp.params.2.1⟩, by simp only [h1, if_true]; omega,
        by simp only [h1, if_true]; omega⟩
    | false =>
      rw [remove_absent c fp i1 _ hl]
      exact ⟨⟨hwf, rfl, rfl⟩, by simp, by simp⟩
  | lookup fp i1 => exact ⟨⟨hwf, rfl, rfl⟩, rfl, rfl⟩

/-- one operation changes the orbit count of a key by the successful insert / remove of that key -/
theorem step_kc (L : LawfulBucket o emp) (alt : Nat → F → Nat) (n s : Nat)
    (hInv : ∀ j f, j < n → alt j f < n ∧ alt (alt j f) f = j) (hs : 0 < s) (c : Cuckoo B) (op : COp F)
    (hI : Inv L n s c) (hv : ValidOp emp n s op) (hsafe : OpSafe o alt c op)
    (j : Nat) (g : F) (hj : j < n) (hg : g ≠ emp) :
    kc L alt (step o alt c op).1 j g + remHit o alt (keySel alt g j) c op
      = kc L alt c j g + insHit o alt (keySel alt g j) c op := by
  obtain ⟨hwf, hn, hb⟩ := hI
  subst hn; subst hb
  cases op with
  | insert fp i1 d side slots =>
    obtain ⟨hfp, hi1, hsl⟩ := hv
    simp only [step, insHit, remHit, keySel, decide_eq_true_eq]
    cases h : insert o alt c fp i1 (alt i1 fp) d side slots with
    | ok c' =>
      have := insert_ok_kc L alt c fp i1 d side slots c' hwf hInv hs hfp hi1 hsl h j g hj hg
      simp only [CRes.val, CRes.isOk, true_and, Nat.add_zero]
      rw [this]
      have e : (g = fp) = (fp = g) := propext ⟨Eq.symm, Eq.symm⟩
      simp only [ind, e]
    | full c' =>
      cases d with
      | false =>
        have := insert_full_nondestructive L alt c fp i1 _ side slots c' h
        subst this
        simp [CRes.val, CRes.isOk]
      | true =>
        simp only [OpSafe] at hsafe
        rw [h] at hsafe
        simp [CRes.isOk] at hsafe
  | remove fp i1 =>
    obtain ⟨hfp, hi1⟩ := hv
    simp only [step, insHit, remHit, keySel, decide_eq_true_eq]
    cases hl : lookup o c fp i1 (alt i1 fp) with
    | true =>
      have h1 := (remove_present L c fp i1 _ hwf hfp hi1 (hInv i1 fp hi1).1 hl).1
      have := remove_kc L alt c fp i1 hwf hInv hfp hi1 hl j g hj hg
      rw [← this]
      have e : (g = fp) = (fp = g) := propext ⟨Eq.symm, Eq.symm⟩
      simp only [h1, true_and, ind, e, Nat.add_zero]
    | false =>
      rw [remove_absent c fp i1 _ hl]
      simp
  | lookup fp i1 => rfl

theorem step_params (alt : Nat → F → Nat) (c : Cuckoo B) (op : COp F) :
    SameParams c (step o alt c op).1 := by
  cases op with
  | insert fp i1 d side slots => exact insert_params alt c fp i1 _ d side slots
  | remove fp i1 => exact remove_params c fp i1 _
  | lookup fp i1 => exact SameParams.refl c

theorem run_params (alt : Nat → F → Nat) (c : Cuckoo B) (h : List (COp F)) :
    SameParams c (run o alt c h) := by
  induction h generalizing c with
  | nil => exact SameParams.refl c
  | cons op h ih => exact (step_params alt c op).trans (ih _)

/-- **well-formedness and `length` accounting over a history** -/
theorem run_inv (L : LawfulBucket o emp) (alt : Nat → F → Nat) (n s : Nat)
    (hAlt : ∀ j f, j < n → alt j f < n) (hs : 0 < s) (c : Cuckoo B) (h : List (COp F))
    (hI : Inv L n s c) (hv : ∀ op ∈ h, ValidOp emp n s op) :
    Inv L n s (run o alt c h) ∧
    (run o alt c h).length + okRemoves o alt allSel c h = c.length + okInserts o alt allSel c h ∧
    tocc L (run o alt c h).buckets + okRemoves o alt allSel c h
      = tocc L c.buckets + okInserts o alt allSel c h := by
  induction h generalizing c with
  | nil => exact ⟨hI, rfl, rfl⟩
  | cons op h ih =>
    obtain ⟨h1, h2, h3⟩ := step_inv L alt n s hAlt hs c op hI (hv op List.mem_cons_self)
    obtain ⟨k1, k2, k3⟩ := ih _ h1 (fun op' hop => hv op' (List.mem_cons_of_mem _ hop))
    refine ⟨k1, ?_, ?_⟩
    · simp only [run_cons, okInserts, okRemoves]; omega
    · simp only [run_cons, okInserts, okRemoves]; omega

/-- **orbit-count accounting over a history without destructive failure** -/
theorem run_kc (L : LawfulBucket o emp) (alt : Nat → F → Nat) (n s : Nat)
    (hInv : ∀ j f, j < n → alt j f < n ∧ alt (alt j f) f = j) (hs : 0 < s) (c : Cuckoo B)
    (h : List (COp F)) (hI : Inv L n s c) (hv : ∀ op ∈ h, ValidOp emp n s op)
    (hsafe : NoDestructiveFail o alt c h) (j : Nat) (g : F) (hj : j < n) (hg : g ≠ emp) :
    kc L alt (run o alt c h) j g + okRemoves o alt (keySel alt g j) c h
      = kc L alt c j g + okInserts o alt (keySel alt g j) c h := by
  induction h generalizing c with
  | nil => rfl
  | cons op h ih =>
    have hv1 := hv op List.mem_cons_self
    have h1 := (step_inv L alt n s (fun j f hj => (hInv j f hj).1) hs c op hI hv1).1
    have h2 := step_kc L alt n s hInv hs c op hI hv1 hsafe.1 j g hj hg
    have h3 := ih _ h1 (fun op' hop => hv op' (List.mem_cons_of_mem _ hop)) hsafe.2
    simp only [run_cons, okInserts, okRemoves]; omega

end
end Gostatix.Cuckoo
