/-
  Gostatix.Proofs.C14Strict — the cuckoo `Insert` WITHOUT totalised accesses
  (helpers for Props/C14Strict.lean).  Generic in the bucket implementation.

  `Cuckoo.insert` (Model/Cuckoo.lean) reads buckets with `bucketAt bs i = bs.getD i default`,
  slots with `getD i emp`, and writes with `modAt` / `List.set`, all of which are total: an index
  that does not exist yields a default resp. a no-op.  The Go code indexes a slice (panic), a map
  of bucket handles (nil handle: panic) or a Redis list (LINDEX nil reply / LSET error).  Here:

   * `StrictOps`   — `get?` / `set?` / `add?`, the bucket primitives with an explicit failure;
   * `kickS`, `rollbackS`, `insertS` — the walk, the roll-back replay and `Insert` re-defined on
     the strict primitives and on `bs[i]?` (an `Option`: `none` = "the Go code leaves the path the
     model describes here");
   * `StrictLawful` — what ties a `StrictOps` to the totalised `BucketOps` and its `LawfulBucket`
     laws: `get?`/`set?` succeed EXACTLY on the slots that exist and then agree with `get`/`set`;
   * `WalkShape`, `EntryIn`, `WalkInv` — the invariant of the walk;
   * `walk_round`, `rollback_round`, `kick_walk` — the invariant is kept, every access is in range;
   * `kickS_eq`, `rollbackS_eq`, `insertS_eq` — the strict run succeeds and equals the model.

  No `fp ≠ emp` hypothesis anywhere: the invariant only uses that a slot write keeps the cached
  length (`isFree_set`) and the number of slots (`slots_set`).
  Core Lean only.
-/
import Gostatix.Proofs.CuckooFilter
set_option linter.unusedSectionVars false
namespace Gostatix

/-- the bucket primitives `Insert` uses, with an explicit failure (`none`) -/
structure StrictOps (B F : Type) where
  /-- `at(index)` -/
  get? : B → Nat → Option F
  /-- `set(index, element)` -/
  set? : B → Nat → F → Option B
  /-- `add(element)` -/
  add? : B → F → Option B

namespace Cuckoo

section defs
variable {B F : Type}

/-- strict `modAt`: the bucket must exist and the update must succeed -/
def modAt? (bs : List B) (i : Nat) (f : B → Option B) : Option (List B) :=
  (bs[i]?).bind fun b => (f b).map fun b' => bs.set i b'

/-- the eviction loop on the strict primitives.  Same control flow and same order of accesses as
    `Cuckoo.kick` (and as the Go loop: `at`, `set`, `isFree` of the alternate bucket, `add`).
    The random stream is still read with `headD 0`: that is a draw, not a memory access. -/
def kickS (o : BucketOps B F) (so : StrictOps B F) (alt : Nat → F → Nat) :
    Nat → List B → Nat → F → List Nat → List (F × Nat × Nat) →
      Option (List B × List (F × Nat × Nat) × Bool)
  | 0, bs, _, _, _, log => some (bs, log, false)
  | r+1, bs, idx, cur, slots, log =>
    (bs[idx]?).bind fun b =>
    (so.get? b (slots.headD 0)).bind fun prev =>
    (so.set? b (slots.headD 0) cur).bind fun b' =>
    ((bs.set idx b')[alt idx prev]?).bind fun nb =>
    if o.isFree nb then
      (so.add? nb prev).map fun nb' =>
        ((bs.set idx b').set (alt idx prev) nb', (prev, idx, slots.headD 0) :: log, true)
    else kickS o so alt r (bs.set idx b') (alt idx prev) prev slots.tail
      ((prev, idx, slots.headD 0) :: log)

/-- the roll-back replay on the strict primitives (newest entry first, as `Cuckoo.rollback`) -/
def rollbackS (so : StrictOps B F) : List B → List (F × Nat × Nat) → Option (List B)
  | bs, [] => some bs
  | bs, it :: log =>
    (modAt? bs it.2.1 (fun b => so.set? b it.2.2 it.1)).bind fun bs' => rollbackS so bs' log

/-- `Insert(data, destructive)` on the strict primitives.  As in Go the second candidate bucket is
    only addressed when the first one is full. -/
def insertS (o : BucketOps B F) (so : StrictOps B F) (alt : Nat → F → Nat) (c : Cuckoo B)
    (fp : F) (i1 i2 : Nat) (destructive : Bool) (side : Bool) (slots : List Nat) :
    Option (CRes (Cuckoo B)) :=
  (c.buckets[i1]?).bind fun b1 =>
  if o.isFree b1 then
    (so.add? b1 fp).map fun b' =>
      .ok { c with buckets := c.buckets.set i1 b', length := c.length + 1 }
  else
    (c.buckets[i2]?).bind fun b2 =>
    if o.isFree b2 then
      (so.add? b2 fp).map fun b' =>
        .ok { c with buckets := c.buckets.set i2 b', length := c.length + 1 }
    else
      (kickS o so alt c.retries c.buckets (if side then i1 else i2) fp slots []).bind fun res =>
      if res.2.2 then some (.ok { c with buckets := res.1, length := c.length + 1 })
      else if destructive then some (.full { c with buckets := res.1 })
      else (rollbackS so res.1 res.2.1).map fun bs' => .full { c with buckets := bs' }

/-- the arguments of one `Insert` call are in range: candidate buckets and every alternate bucket
    `< n`, every drawn slot `< bsize`, and the table is not degenerate -/
structure InRange (c : Cuckoo B) (alt : Nat → F → Nat) (i1 i2 : Nat) (slots : List Nat) : Prop where
  n_pos : 0 < c.n
  bsize_pos : 0 < c.bsize
  i1_lt : i1 < c.n
  i2_lt : i2 < c.n
  alt_lt : ∀ j f, j < c.n → alt j f < c.n
  slots_lt : ∀ x ∈ slots, x < c.bsize

end defs

section
variable {B F : Type} [DecidableEq F] [Inhabited B] {o : BucketOps B F} {emp : F}

/-- a `StrictOps` that fails exactly on the slots that do not exist -/
structure StrictLawful (L : LawfulBucket o emp) (so : StrictOps B F) : Prop where
  get?_eq : ∀ b i, so.get? b i = if i < (L.slots b).length then some (o.get b i) else none
  set?_eq : ∀ b i e, so.set? b i e = if i < (L.slots b).length then some (o.set b i e) else none
  add?_ok : ∀ s b e, L.wfb s b → o.isFree b = true → so.add? b e = some (o.add b e)
  isFree_set : ∀ b i e, o.isFree (o.set b i e) = o.isFree b

/-! ### list helpers -/

theorem getElem?_eq_bucketAt (bs : List B) (i : Nat) (hi : i < bs.length) :
    bs[i]? = some (bucketAt bs i) := by
  simp [bucketAt, List.getD_eq_getElem?_getD, hi]

theorem getElem?_none_of_ge (bs : List B) (i : Nat) (hi : bs.length ≤ i) : bs[i]? = none :=
  List.getElem?_eq_none hi

theorem set_eq_modAt (bs : List B) (i : Nat) (f : B → B) :
    bs.set i (f (bucketAt bs i)) = modAt bs i f := by
  induction bs generalizing i with
  | nil => rfl
  | cons a as ih =>
    cases i with
    | zero => rfl
    | succ i =>
      have := ih i
      simp only [bucketAt, List.getD_cons_succ, List.set_cons_succ, modAt] at this ⊢
      rw [this]

theorem modAt?_eq (bs : List B) (i : Nat) (f : B → Option B) (g : B → B) (hi : i < bs.length)
    (h : f (bucketAt bs i) = some (g (bucketAt bs i))) : modAt? bs i f = some (modAt bs i g) := by
  unfold modAt?
  rw [getElem?_eq_bucketAt bs i hi]
  simp only [Option.bind_some, h, Option.map_some, set_eq_modAt]

theorem modAt?_none_of_ge (bs : List B) (i : Nat) (f : B → Option B) (hi : bs.length ≤ i) :
    modAt? bs i f = none := by
  unfold modAt?; rw [getElem?_none_of_ge bs i hi]; rfl

/-- a slot write changes neither the number of buckets nor the number of slots of any bucket -/
theorem slotsLen_modAt_set (L : LawfulBucket o emp) (bs : List B) (i k : Nat) (x : F) (j : Nat) :
    (L.slots (bucketAt (modAt bs i (fun b => o.set b k x)) j)).length
      = (L.slots (bucketAt bs j)).length := by
  rcases Nat.lt_or_ge i bs.length with hi | hi
  · rw [bucketAt_modAt bs i j _ hi]
    by_cases e : j = i
    · subst e; rw [if_pos rfl, L.slots_set, List.length_set]
    · rw [if_neg e]
  · rw [modAt_of_ge bs i _ hi]

theorem isFree_modAt_set (L : LawfulBucket o emp) {so : StrictOps B F} (S : StrictLawful L so)
    (bs : List B) (i k : Nat) (x : F) (j : Nat) :
    o.isFree (bucketAt (modAt bs i (fun b => o.set b k x)) j) = o.isFree (bucketAt bs j) := by
  rcases Nat.lt_or_ge i bs.length with hi | hi
  · rw [bucketAt_modAt bs i j _ hi]
    by_cases e : j = i
    · subst e; rw [if_pos rfl, S.isFree_set]
    · rw [if_neg e]
  · rw [modAt_of_ge bs i _ hi]

/-! ### the invariant of the walk -/

/-- what the walk needs of the table: `n` buckets; a bucket WITHOUT room has exactly `s` slots; a
    bucket WITH room is well-formed.  Weaker than `WFbs` (`WalkShape.of_wf`), and — unlike `WFbs` —
    kept by a slot write of ANY fingerprint, the empty one included. -/
structure WalkShape (L : LawfulBucket o emp) (n s : Nat) (bs : List B) : Prop where
  len : bs.length = n
  full : ∀ j, j < n → o.isFree (bucketAt bs j) = false → (L.slots (bucketAt bs j)).length = s
  free : ∀ j, j < n → o.isFree (bucketAt bs j) = true → L.wfb s (bucketAt bs j)

theorem WalkShape.of_wf {L : LawfulBucket o emp} {n s : Nat} {bs : List B} (h : WFbs L n s bs) :
    WalkShape L n s bs :=
  ⟨h.len, fun j hj hf => (full_of_not_free L s _ (h.at j hj) hf).1, fun j hj _ => h.at j hj⟩

/-- the log entry `(prev, idx, slot)` addresses an existing slot of an existing bucket of `bs` -/
def EntryIn (L : LawfulBucket o emp) (bs : List B) (e : F × Nat × Nat) : Prop :=
  e.2.1 < bs.length ∧ e.2.2 < (L.slots (bucketAt bs e.2.1)).length

/-- **the invariant**: the table has the walk shape, the carried position is an existing bucket
    without room, and every log entry addresses an existing slot -/
structure WalkInv (L : LawfulBucket o emp) (n s : Nat) (bs : List B) (idx : Nat)
    (log : List (F × Nat × Nat)) : Prop where
  shape : WalkShape L n s bs
  idx_lt : idx < n
  full : o.isFree (bucketAt bs idx) = false
  log_in : ∀ e ∈ log, EntryIn L bs e

theorem EntryIn.modAt_set (L : LawfulBucket o emp) (bs : List B) (i k : Nat) (x : F)
    (e : F × Nat × Nat) (h : EntryIn L bs e) :
    EntryIn L (modAt bs i (fun b => o.set b k x)) e := by
  unfold EntryIn at *
  rw [modAt_length, slotsLen_modAt_set]
  exact h

theorem WalkShape.modAt_set {L : LawfulBucket o emp} {so : StrictOps B F} (S : StrictLawful L so)
    {n s : Nat} {bs : List B} (h : WalkShape L n s bs) (i k : Nat) (x : F)
    (hfull : o.isFree (bucketAt bs i) = false) :
    WalkShape L n s (modAt bs i (fun b => o.set b k x)) := by
  refine ⟨by rw [modAt_length, h.len], ?_, ?_⟩
  · intro j hj hf
    rw [isFree_modAt_set L S] at hf
    rw [slotsLen_modAt_set]
    exact h.full j hj hf
  · intro j hj hf
    rw [isFree_modAt_set L S] at hf
    rcases Nat.lt_or_ge i bs.length with hi | hi
    · rw [bucketAt_modAt bs i j _ hi]
      by_cases e : j = i
      · subst e; rw [hfull] at hf; cases hf
      · rw [if_neg e]; exact h.free j hj hf
    · rw [modAt_of_ge bs i _ hi]; exact h.free j hj hf

/-- **one round of the forward walk.**  Under the invariant and for a drawn slot `< s`:
    the bucket `idx` exists, the slot exists in it (read and write in range), the alternate bucket
    exists; afterwards the table still has the walk shape, every log entry INCLUDING the new one
    addresses an existing slot, no bucket changed its `isFree`, and if the alternate bucket has no
    room the invariant holds for the next round. -/
theorem walk_round (L : LawfulBucket o emp) {so : StrictOps B F} (S : StrictLawful L so)
    (alt : Nat → F → Nat) (n s : Nat) (hAlt : ∀ j f, j < n → alt j f < n)
    (bs : List B) (idx : Nat) (cur : F) (slot : Nat) (log : List (F × Nat × Nat))
    (hI : WalkInv L n s bs idx log) (hslot : slot < s) :
    idx < bs.length ∧ slot < (L.slots (bucketAt bs idx)).length ∧
    alt idx (o.get (bucketAt bs idx) slot) < (modAt bs idx (fun b => o.set b slot cur)).length ∧
    WalkShape L n s (modAt bs idx (fun b => o.set b slot cur)) ∧
    (∀ e ∈ (o.get (bucketAt bs idx) slot, idx, slot) :: log,
      EntryIn L (modAt bs idx (fun b => o.set b slot cur)) e) ∧
    (∀ j, o.isFree (bucketAt (modAt bs idx (fun b => o.set b slot cur)) j)
        = o.isFree (bucketAt bs j)) ∧
    (o.isFree (bucketAt (modAt bs idx (fun b => o.set b slot cur))
        (alt idx (o.get (bucketAt bs idx) slot))) = false →
      WalkInv L n s (modAt bs idx (fun b => o.set b slot cur))
        (alt idx (o.get (bucketAt bs idx) slot)) ((o.get (bucketAt bs idx) slot, idx, slot) :: log)) := by
  have hlen : idx < bs.length := by rw [hI.shape.len]; exact hI.idx_lt
  have hsl : slot < (L.slots (bucketAt bs idx)).length := by
    rw [hI.shape.full idx hI.idx_lt hI.full]; exact hslot
  have hn := hAlt idx (o.get (bucketAt bs idx) slot) hI.idx_lt
  have hsh := hI.shape.modAt_set S idx slot cur hI.full
  have hlog : ∀ e ∈ (o.get (bucketAt bs idx) slot, idx, slot) :: log,
      EntryIn L (modAt bs idx (fun b => o.set b slot cur)) e := by
    intro e he
    apply EntryIn.modAt_set
    rcases List.mem_cons.mp he with rfl | he
    · exact ⟨hlen, hsl⟩
    · exact hI.log_in e he
  refine ⟨hlen, hsl, by rw [modAt_length, hI.shape.len]; exact hn, hsh, hlog,
    isFree_modAt_set L S bs idx slot cur, fun hf => ⟨hsh, hn, hf, hlog⟩⟩

/-- **one round of the roll-back replay.**  If every entry of the log addresses an existing slot
    then the newest one does, and after its slot write the remaining ones still do. -/
theorem rollback_round (L : LawfulBucket o emp) (bs : List B) (e0 : F × Nat × Nat)
    (log : List (F × Nat × Nat)) (h : ∀ e ∈ e0 :: log, EntryIn L bs e) :
    EntryIn L bs e0 ∧
    ∀ e ∈ log, EntryIn L (modAt bs e0.2.1 (fun b => o.set b e0.2.2 e0.1)) e :=
  ⟨h e0 List.mem_cons_self,
    fun e he => EntryIn.modAt_set L bs _ _ _ e (h e (List.mem_cons_of_mem _ he))⟩

/-- **the whole forward walk**, for every retry count `r`, every random stream `slots` (entries
    `< s`), every carried fingerprint `cur` (the empty one included) and every log `log` so far.
    `new` are the entries this run added (newest first).  Every bucket index it used (`e.2.1`, the
    overwritten bucket; `alt e.2.1 e.1`, the bucket tested for room) is `< n`, every slot number
    is `< s` and the overwritten bucket had no room — hence exactly `s` slots — in the INITIAL
    table `bs`.  A failing run used all `r` rounds, tested only buckets without room, and its final
    table has the same shape and the same `isFree` per bucket as the initial one. -/
theorem kick_walk (L : LawfulBucket o emp) {so : StrictOps B F} (S : StrictLawful L so)
    (alt : Nat → F → Nat) (n s : Nat) (hAlt : ∀ j f, j < n → alt j f < n) (hs : 0 < s) :
    ∀ (r : Nat) (bs : List B) (idx : Nat) (cur : F) (slots : List Nat) (log : List (F × Nat × Nat))
      (bs' : List B) (log' : List (F × Nat × Nat)) (found : Bool),
      WalkShape L n s bs → idx < n → o.isFree (bucketAt bs idx) = false →
      (∀ x ∈ slots, x < s) →
      kick o alt r bs idx cur slots log = (bs', log', found) →
      ∃ new, log' = new ++ log ∧
        (∀ e ∈ new, e.2.1 < n ∧ e.2.2 < s ∧ alt e.2.1 e.1 < n ∧
          o.isFree (bucketAt bs e.2.1) = false) ∧
        (found = false → new.length = r ∧ WalkShape L n s bs' ∧
          (∀ j, o.isFree (bucketAt bs' j) = o.isFree (bucketAt bs j)) ∧
          ∀ e ∈ new, o.isFree (bucketAt bs (alt e.2.1 e.1)) = false) := by
  intro r
  induction r with
  | zero =>
    intro bs idx cur slots log bs' log' found hsh hidx hfull hsl h
    rw [kick_zero] at h
    injection h with h1 h2; injection h2 with h2 h3
    subst h1; subst h2
    exact ⟨[], rfl, by simp, fun _ => ⟨rfl, hsh, fun _ => rfl, by simp⟩⟩
  | succ r ih =>
    intro bs idx cur slots log bs' log' found hsh hidx hfull hsl h
    rw [kick_succ] at h
    have hslot := headD_lt slots s hs hsl
    obtain ⟨_, _, _, hsh1, _, hfree1, _⟩ :=
      walk_round L S alt n s hAlt bs idx cur (slots.headD 0) [] ⟨hsh, hidx, hfull, by simp⟩ hslot
    have hnidx := hAlt idx (o.get (bucketAt bs idx) (slots.headD 0)) hidx
    split at h
    · injection h with h1 h2; injection h2 with h2 h3
      subst h2; subst h3
      refine ⟨[(o.get (bucketAt bs idx) (slots.headD 0), idx, slots.headD 0)], rfl, ?_, ?_⟩
      · intro e he
        rw [List.mem_singleton] at he; subst he
        exact ⟨hidx, hslot, hnidx, hfull⟩
      · intro hc; cases hc
    · rename_i hfree
      have hfull1 : o.isFree (bucketAt (modAt bs idx (fun b => o.set b (slots.headD 0) cur))
          (alt idx (o.get (bucketAt bs idx) (slots.headD 0)))) = false := by
        simpa using hfree
      obtain ⟨new, h1, h2, h3⟩ :=
        ih _ _ _ _ _ _ _ _ hsh1 hnidx hfull1 (tail_lt slots s hsl) h
      refine ⟨new ++ [(o.get (bucketAt bs idx) (slots.headD 0), idx, slots.headD 0)], ?_, ?_, ?_⟩
      · rw [h1]; simp
      · intro e he
        rw [List.mem_append] at he
        rcases he with he | he
        · obtain ⟨a, b, c, d⟩ := h2 e he
          rw [hfree1] at d
          exact ⟨a, b, c, d⟩
        · rw [List.mem_singleton] at he; subst he
          exact ⟨hidx, hslot, hnidx, hfull⟩
      · intro hf
        obtain ⟨a, b, c, d⟩ := h3 hf
        refine ⟨by simp [a], b, fun j => by rw [c j, hfree1 j], ?_⟩
        intro e he
        rw [List.mem_append] at he
        rcases he with he | he
        · have := d e he
          rw [hfree1] at this
          exact this
        · rw [List.mem_singleton] at he; subst he
          rw [hfree1] at hfull1
          exact hfull1

/-- in a table of walk shape an entry with an in-range bucket without room and a slot `< s`
    addresses an existing slot -/
theorem EntryIn.of_full (L : LawfulBucket o emp) {n s : Nat} {bs : List B} (h : WalkShape L n s bs)
    (e : F × Nat × Nat) (h1 : e.2.1 < n) (h2 : e.2.2 < s)
    (h3 : o.isFree (bucketAt bs e.2.1) = false) : EntryIn L bs e :=
  ⟨by rw [h.len]; exact h1, by rw [h.full _ h1 h3]; exact h2⟩

/-- **every access of the walk is in range** (end-to-end form of `walk_round` / `rollback_round`):
    every entry the forward walk logged addresses an existing slot of an existing bucket of the
    initial table `bs` (no slot write changes a length, so this is also the table at the time of
    the access), the bucket it then tested for room exists; and when the walk fails every entry
    addresses an existing slot of the final table `bs'`, the one the roll-back replay starts from. -/
theorem kick_in_range (L : LawfulBucket o emp) {so : StrictOps B F} (S : StrictLawful L so)
    (alt : Nat → F → Nat) (n s : Nat) (hAlt : ∀ j f, j < n → alt j f < n) (hs : 0 < s)
    (r : Nat) (bs : List B) (idx : Nat) (cur : F) (slots : List Nat)
    (bs' : List B) (log' : List (F × Nat × Nat)) (found : Bool)
    (hsh : WalkShape L n s bs) (hidx : idx < n) (hfull : o.isFree (bucketAt bs idx) = false)
    (hsl : ∀ x ∈ slots, x < s)
    (h : kick o alt r bs idx cur slots [] = (bs', log', found)) :
    (∀ e ∈ log', EntryIn L bs e ∧ alt e.2.1 e.1 < bs.length) ∧
    (found = false → log'.length = r ∧ bs'.length = bs.length ∧ ∀ e ∈ log', EntryIn L bs' e) := by
  obtain ⟨new, e1, e2, e3⟩ := kick_walk L S alt n s hAlt hs _ _ _ _ _ _ _ _ _ hsh hidx hfull hsl h
  rw [List.append_nil] at e1; subst e1
  refine ⟨?_, ?_⟩
  · intro e he
    obtain ⟨a, b, c, d⟩ := e2 e he
    exact ⟨EntryIn.of_full L hsh e a b d, by rw [hsh.len]; exact c⟩
  · intro hf
    obtain ⟨a, hsh', hfree', _⟩ := e3 hf
    refine ⟨a, by rw [hsh'.len, hsh.len], ?_⟩
    intro e he
    obtain ⟨a, b, _, d⟩ := e2 e he
    exact EntryIn.of_full L hsh' e a b (by rw [hfree']; exact d)

/-! ### the strict run equals the totalised run -/

theorem kickS_zero (so : StrictOps B F) (alt : Nat → F → Nat) (bs : List B) (idx : Nat) (cur : F)
    (slots : List Nat) (log : List (F × Nat × Nat)) :
    kickS o so alt 0 bs idx cur slots log = some (bs, log, false) := rfl

theorem kickS_succ (so : StrictOps B F) (alt : Nat → F → Nat) (r : Nat) (bs : List B) (idx : Nat)
    (cur : F) (slots : List Nat) (log : List (F × Nat × Nat)) :
    kickS o so alt (r+1) bs idx cur slots log =
      (bs[idx]?).bind fun b =>
      (so.get? b (slots.headD 0)).bind fun prev =>
      (so.set? b (slots.headD 0) cur).bind fun b' =>
      ((bs.set idx b')[alt idx prev]?).bind fun nb =>
      if o.isFree nb then
        (so.add? nb prev).map fun nb' =>
          ((bs.set idx b').set (alt idx prev) nb', (prev, idx, slots.headD 0) :: log, true)
      else kickS o so alt r (bs.set idx b') (alt idx prev) prev slots.tail
        ((prev, idx, slots.headD 0) :: log) := rfl

/-- **the strict walk succeeds and computes `kick`** -/
theorem kickS_eq (L : LawfulBucket o emp) {so : StrictOps B F} (S : StrictLawful L so)
    (alt : Nat → F → Nat) (n s : Nat) (hAlt : ∀ j f, j < n → alt j f < n) (hs : 0 < s) :
    ∀ (r : Nat) (bs : List B) (idx : Nat) (cur : F) (slots : List Nat) (log : List (F × Nat × Nat)),
      WalkShape L n s bs → idx < n → o.isFree (bucketAt bs idx) = false →
      (∀ x ∈ slots, x < s) →
      kickS o so alt r bs idx cur slots log = some (kick o alt r bs idx cur slots log) := by
  intro r
  induction r with
  | zero => intro bs idx cur slots log _ _ _ _; rfl
  | succ r ih =>
    intro bs idx cur slots log hsh hidx hfull hsl
    have hslot := headD_lt slots s hs hsl
    obtain ⟨hlen, hsl', hnl, hsh1, _, _, _⟩ :=
      walk_round L S alt n s hAlt bs idx cur (slots.headD 0) [] ⟨hsh, hidx, hfull, by simp⟩ hslot
    have hnidx := hAlt idx (o.get (bucketAt bs idx) (slots.headD 0)) hidx
    rw [kickS_succ, kick_succ, getElem?_eq_bucketAt bs idx hlen]
    simp only [Option.bind_some, S.get?_eq, S.set?_eq, if_pos hsl']
    rw [set_eq_modAt bs idx (fun b => o.set b (slots.headD 0) cur), getElem?_eq_bucketAt _ _ hnl]
    simp only [Option.bind_some]
    split
    · rename_i hfree
      rw [S.add?_ok s _ _ (hsh1.free _ hnidx hfree) hfree]
      simp only [Option.map_some]
      rw [set_eq_modAt _ _ (fun b => o.add b (o.get (bucketAt bs idx) (slots.headD 0)))]
    · rename_i hfree
      exact ih _ _ _ _ _ hsh1 hnidx (by simpa using hfree) (tail_lt slots s hsl)

/-- **the strict replay succeeds and computes `rollback`** when every entry addresses an
    existing slot -/
theorem rollbackS_eq (L : LawfulBucket o emp) {so : StrictOps B F} (S : StrictLawful L so) :
    ∀ (log : List (F × Nat × Nat)) (bs : List B), (∀ e ∈ log, EntryIn L bs e) →
      rollbackS so bs log = some (rollback o bs log) := by
  intro log
  induction log with
  | nil => intro bs _; rfl
  | cons e0 log ih =>
    intro bs h
    obtain ⟨⟨h1, h2⟩, h3⟩ := rollback_round L bs e0 log h
    show (modAt? bs e0.2.1 (fun b => so.set? b e0.2.2 e0.1)).bind _ = _
    rw [modAt?_eq bs e0.2.1 _ (fun b => o.set b e0.2.2 e0.1) h1 (by rw [S.set?_eq, if_pos h2])]
    simp only [Option.bind_some]
    rw [ih _ h3, rollback_cons]

/-- **the strict `Insert` succeeds and computes `insert`** on a table of walk shape with in-range
    arguments (both modes, every outcome) -/
theorem insertS_eq (L : LawfulBucket o emp) {so : StrictOps B F} (S : StrictLawful L so)
    (alt : Nat → F → Nat) (c : Cuckoo B) (fp : F) (i1 i2 : Nat) (d side : Bool) (slots : List Nat)
    (hsh : WalkShape L c.n c.bsize c.buckets) (hr : InRange c alt i1 i2 slots) :
    insertS o so alt c fp i1 i2 d side slots = some (insert o alt c fp i1 i2 d side slots) := by
  have hl1 : i1 < c.buckets.length := by rw [hsh.len]; exact hr.i1_lt
  have hl2 : i2 < c.buckets.length := by rw [hsh.len]; exact hr.i2_lt
  unfold insertS insert
  rw [getElem?_eq_bucketAt _ _ hl1]
  simp only [Option.bind_some]
  by_cases h1 : o.isFree (bucketAt c.buckets i1) = true
  · rw [if_pos h1, if_pos h1, S.add?_ok c.bsize _ _ (hsh.free i1 hr.i1_lt h1) h1]
    simp only [Option.map_some]
    rw [set_eq_modAt c.buckets i1 (fun b => o.add b fp)]
  · rw [if_neg h1, if_neg h1, getElem?_eq_bucketAt _ _ hl2]
    simp only [Option.bind_some]
    by_cases h2 : o.isFree (bucketAt c.buckets i2) = true
    · rw [if_pos h2, if_pos h2, S.add?_ok c.bsize _ _ (hsh.free i2 hr.i2_lt h2) h2]
      simp only [Option.map_some]
      rw [set_eq_modAt c.buckets i2 (fun b => o.add b fp)]
    · rw [if_neg h2, if_neg h2]
      have hidx : (if side = true then i1 else i2) < c.n := by
        cases side
        · simpa using hr.i2_lt
        · simpa using hr.i1_lt
      have hfull : o.isFree (bucketAt c.buckets (if side = true then i1 else i2)) = false := by
        cases side
        · simpa using h2
        · simpa using h1
      rw [kickS_eq L S alt c.n c.bsize hr.alt_lt hr.bsize_pos _ _ _ _ _ _ hsh hidx hfull hr.slots_lt]
      simp only [Option.bind_some]
      cases hk : kick o alt c.retries c.buckets (if side = true then i1 else i2) fp slots [] with
      | mk bs rest =>
        obtain ⟨log, found⟩ := rest
        cases found with
        | true => simp
        | false =>
          cases d with
          | true => simp
          | false =>
            obtain ⟨new, e1, e2, e3⟩ := kick_walk L S alt c.n c.bsize hr.alt_lt hr.bsize_pos
              _ _ _ _ _ _ _ _ _ hsh hidx hfull hr.slots_lt hk
            obtain ⟨_, hsh', hfree', _⟩ := e3 rfl
            rw [List.append_nil] at e1; subst e1
            have hin : ∀ e ∈ log, EntryIn L bs e := by
              intro e he
              obtain ⟨a, b, _, dd⟩ := e2 e he
              exact EntryIn.of_full L hsh' e a b (by rw [hfree']; exact dd)
            simp [rollbackS_eq L S log bs hin]

/-- what a failed insert tells, WITHOUT `fp ≠ emp` and on the walk shape only: both candidate
    buckets had no room, the loop used all `retries` rounds, every bucket it overwrote and every
    bucket it tested for room is in range and had no room in the initial table, and every slot it
    used is `< bsize` -/
theorem insert_full_walk (L : LawfulBucket o emp) {so : StrictOps B F} (S : StrictLawful L so)
    (alt : Nat → F → Nat) (c : Cuckoo B) (fp : F) (i1 i2 : Nat) (d side : Bool) (slots : List Nat)
    (c' : Cuckoo B) (hsh : WalkShape L c.n c.bsize c.buckets) (hr : InRange c alt i1 i2 slots)
    (h : insert o alt c fp i1 i2 d side slots = .full c') :
    o.isFree (bucketAt c.buckets i1) = false ∧ o.isFree (bucketAt c.buckets i2) = false ∧
    ∃ bs log, kick o alt c.retries c.buckets (if side then i1 else i2) fp slots [] = (bs, log, false) ∧
      log.length = c.retries ∧
      ∀ e ∈ log, e.2.1 < c.n ∧ e.2.2 < c.bsize ∧ alt e.2.1 e.1 < c.n ∧
        o.isFree (bucketAt c.buckets e.2.1) = false ∧
        o.isFree (bucketAt c.buckets (alt e.2.1 e.1)) = false := by
  rcases insert_cases (o := o) alt c fp i1 i2 d side slots with
    ⟨hf, h1⟩ | ⟨_, hf, h1⟩ | ⟨hf1, hf2, bs, log, found, hk, h1⟩
  · rw [h1] at h; cases h
  · rw [h1] at h; cases h
  · refine ⟨hf1, hf2, ?_⟩
    rw [h1] at h
    cases found with
    | true => simp at h
    | false =>
      have hidx : (if side = true then i1 else i2) < c.n := by
        cases side
        · simpa using hr.i2_lt
        · simpa using hr.i1_lt
      have hfull : o.isFree (bucketAt c.buckets (if side = true then i1 else i2)) = false := by
        cases side
        · simpa using hf2
        · simpa using hf1
      obtain ⟨new, e1, e2, e3⟩ := kick_walk L S alt c.n c.bsize hr.alt_lt hr.bsize_pos
        _ _ _ _ _ _ _ _ _ hsh hidx hfull hr.slots_lt hk
      obtain ⟨hlen, _, _, hfa⟩ := e3 rfl
      rw [List.append_nil] at e1; subst e1
      refine ⟨bs, log, hk, hlen, ?_⟩
      intro e he
      obtain ⟨a, b, cc, dd⟩ := e2 e he
      exact ⟨a, b, cc, dd, hfa e he⟩

end
end Cuckoo
end Gostatix
