/-
  Gostatix.Proofs.RedisBloom — `SETBIT`/`GETBIT` on a Redis string (byte `n/8`, bit `7 - n%8`)
  simulate the in-memory bit array of `Gostatix.Bloom` through the abstraction `absBloom`.
-/
import Gostatix.Proofs.RedisCMS
namespace Gostatix.Redis

/-! ### one byte -/

theorem setBitByte_testBit (b : UInt8) (j i : Nat) (hj : j < 8) (hi : i < 8) :
    (setBitByte b j).toNat.testBit (7 - i) = (decide (i = j) || b.toNat.testBit (7 - i)) := by
  unfold setBitByte
  rw [UInt8.toNat_ofNat', Nat.testBit_mod_two_pow, Nat.testBit_or, Nat.testBit_two_pow]
  have h7 : decide (7 - i < 8) = true := by simp; omega
  rw [h7, Bool.true_and, Bool.or_comm]
  congr 1
  by_cases e : i = j
  · subst e; simp
  · have : 7 - j ≠ 7 - i := by omega
    simp [e, this]

/-! ### bits of a byte string -/

theorem setBit_length (bytes : List UInt8) (n : Nat) (hn : n < 8 * bytes.length) :
    (setBit bytes n).length = bytes.length := by
  unfold setBit
  have : n / 8 + 1 - bytes.length = 0 := by omega
  simp [this]

theorem getBit_setBit (bytes : List UInt8) (n p : Nat) (hn : n < 8 * bytes.length) :
    getBit (setBit bytes n) p = (decide (p = n) || getBit bytes p) := by
  unfold setBit getBit
  have h0 : n / 8 + 1 - bytes.length = 0 := by omega
  simp only [h0, List.replicate_zero, List.append_nil]
  rw [modAt_getD _ _ _ _ _ (by omega)]
  by_cases e : p / 8 = n / 8
  · rw [if_pos e, setBitByte_testBit _ _ _ (Nat.mod_lt _ (by omega)) (Nat.mod_lt _ (by omega)), e]
    congr 1
    by_cases e' : p % 8 = n % 8
    · have : p = n := by omega
      simp [this]
    · have : p ≠ n := fun h => e' (by rw [h])
      simp [e', this]
  · rw [if_neg e]
    have : p ≠ n := fun h => e (by rw [h])
    simp [this]

theorem bitsOf_length (bytes : List UInt8) : (bitsOf bytes).length = 8 * bytes.length := by
  simp [bitsOf]

theorem bitsOf_getD (bytes : List UInt8) (p : Nat) (hp : p < 8 * bytes.length) :
    (bitsOf bytes).getD p false = getBit bytes p := by
  simp [bitsOf, List.getD_eq_getElem?_getD, List.getElem?_map, List.getElem?_range hp]

theorem bitsOf_setBit (bytes : List UInt8) (n : Nat) (hn : n < 8 * bytes.length) :
    bitsOf (setBit bytes n) = (bitsOf bytes).set n true := by
  apply List.ext_getElem?
  intro p
  simp only [bitsOf, List.getElem?_map, List.getElem?_set, setBit_length bytes n hn,
    List.length_map, List.length_range]
  by_cases hp : p < 8 * bytes.length
  · rw [List.getElem?_range hp]
    simp only [Option.map_some, getBit_setBit bytes n p hn]
    by_cases e : n = p
    · subst e; simp [hn]
    · have : p ≠ n := Ne.symm e
      simp [e, this]
  · have : (List.range (8 * bytes.length))[p]? = none := by
      rw [List.getElem?_eq_none]; simpa using hp
    have e : n ≠ p := by omega
    simp [this, e]

theorem setBits_take (bits : List Bool) (ps : List Nat) (n : Nat) :
    (Bloom.setBits bits ps).take n = Bloom.setBits (bits.take n) ps := by
  unfold Bloom.setBits
  induction ps generalizing bits with
  | nil => rfl
  | cons p ps ih => simp only [List.foldl_cons]; rw [ih, List.take_set]

theorem setBits_length' (bits : List Bool) (ps : List Nat) :
    (Bloom.setBits bits ps).length = bits.length := by
  unfold Bloom.setBits
  induction ps generalizing bits with
  | nil => rfl
  | cons p ps ih => simp only [List.foldl_cons]; rw [ih]; simp

/-! ### abstraction -/

theorem absBloom_eq_some_iff (s : Store) (h : BloomHandle) (b : Bloom) :
    absBloom s h = some b ↔ ∃ bytes, s h.bitsetKey = some (.str bytes) ∧ h.size ≤ 8 * bytes.length ∧
      b = { size := h.size, k := h.k, bits := (bitsOf bytes).take h.size } := by
  unfold absBloom
  constructor
  · intro hh
    split at hh
    · rename_i bytes hb
      split at hh
      · rename_i hle
        exact ⟨bytes, hb, hle, (Option.some.inj hh).symm⟩
      · cases hh
    · cases hh
  · rintro ⟨bytes, hb, hle, rfl⟩
    rw [hb]; simp only [hle, if_true]

theorem cmdSETBIT_str {s : Store} {k : String} {b : List UInt8} (h : s k = some (.str b)) (n : Nat) :
    cmdSETBIT k n s = (s.set k (.str (setBit b n)), some ()) := by
  unfold cmdSETBIT; rw [h]

theorem cmdGETBIT_str {s : Store} {k : String} {b : List UInt8} (h : s k = some (.str b)) (n : Nat) :
    cmdGETBIT k n s = (s, some (getBit b n)) := by
  unfold cmdGETBIT; rw [h]

theorem bloomInsertLoop_spec (key : String) :
    ∀ (ps : List Nat) (s : Store) (bytes : List UInt8),
      s key = some (.str bytes) → (∀ p ∈ ps, p < 8 * bytes.length) →
      ∃ s' bytes', bloomInsertLoop key ps s = (s', some ()) ∧ s' key = some (.str bytes') ∧
        bytes'.length = bytes.length ∧ bitsOf bytes' = Bloom.setBits (bitsOf bytes) ps ∧
        ∀ k, k ≠ key → s' k = s k := by
  intro ps
  induction ps with
  | nil => intro s bytes hs _; exact ⟨s, bytes, rfl, hs, rfl, rfl, fun _ _ => rfl⟩
  | cons p ps ih =>
    intro s bytes hs hps
    have hp : p < 8 * bytes.length := hps p List.mem_cons_self
    have hlen := setBit_length bytes p hp
    obtain ⟨s', bytes', hrun, hs', hlen', hbits, hframe⟩ :=
      ih (s.set key (.str (setBit bytes p))) (setBit bytes p) (Store.set_self _ _ _)
        (fun q hq => by rw [hlen]; exact hps q (List.mem_cons_of_mem _ hq))
    refine ⟨s', bytes', ?_, hs', by omega, ?_, ?_⟩
    · unfold bloomInsertLoop
      rw [Script.bind_ok (cmdSETBIT_str hs p)]
      exact hrun
    · rw [hbits, bitsOf_setBit bytes p hp]; rfl
    · intro k hk
      rw [hframe k hk]; exact Store.set_ne _ _ hk

theorem bloomLookupLoop_spec (key : String) (s : Store) (bytes : List UInt8)
    (hs : s key = some (.str bytes)) :
    ∀ (ps : List Nat), bloomLookupLoop key ps s = (s, some (ps.all (fun p => getBit bytes p))) := by
  intro ps
  induction ps with
  | nil => rfl
  | cons p ps ih =>
    unfold bloomLookupLoop
    have t : Script.try_ (cmdGETBIT key p) s = (s, some (some (getBit bytes p))) := by
      unfold Script.try_; rw [cmdGETBIT_str hs]
    rw [Script.bind_ok t]
    simp only [Option.getD_some, List.all_cons]
    cases hb : getBit bytes p
    · simp only [Bool.false_eq_true, if_false, Bool.false_and]; rfl
    · simp only [if_true, Bool.true_and]; exact ih

theorem bloom_insert_abs (h : BloomHandle) (s : Store) (b : Bloom) (ps : List Nat)
    (habs : absBloom s h = some b) (hps : ∀ p ∈ ps, p < h.size) :
    ∃ s', bloomInsert h ps s = (s', some ()) ∧ absBloom s' h = some (b.insert ps) ∧
      ∀ k, k ≠ h.bitsetKey → s' k = s k := by
  obtain ⟨bytes, hs, hle, rfl⟩ := (absBloom_eq_some_iff _ _ _).mp habs
  obtain ⟨s', bytes', hrun, hs', hlen', hbits, hframe⟩ :=
    bloomInsertLoop_spec h.bitsetKey ps s bytes hs (fun p hp => by have := hps p hp; omega)
  refine ⟨s', hrun, (absBloom_eq_some_iff _ _ _).mpr ⟨bytes', hs', by omega, ?_⟩, hframe⟩
  simp only [Bloom.insert, hbits, setBits_take]

theorem all_congr_mem {α} (l : List α) (f g : α → Bool) (h : ∀ a ∈ l, f a = g a) :
    l.all f = l.all g := by
  induction l with
  | nil => rfl
  | cons a l ih =>
    simp only [List.all_cons]
    rw [h a List.mem_cons_self, ih (fun x hx => h x (List.mem_cons_of_mem _ hx))]

theorem bloom_lookup_abs (h : BloomHandle) (s : Store) (b : Bloom) (ps : List Nat)
    (habs : absBloom s h = some b) (hps : ∀ p ∈ ps, p < h.size) :
    bloomLookup h ps s = (s, some (b.lookup ps)) := by
  obtain ⟨bytes, hs, hle, rfl⟩ := (absBloom_eq_some_iff _ _ _).mp habs
  unfold bloomLookup
  rw [bloomLookupLoop_spec h.bitsetKey s bytes hs ps]
  congr 2
  unfold Bloom.lookup
  apply all_congr_mem
  intro p hp
  have hp' := hps p hp
  simp only [List.getD_eq_getElem?_getD, List.getElem?_take, hp', if_true]
  rw [← List.getD_eq_getElem?_getD, bitsOf_getD bytes p (by omega)]

theorem getBit_zeros (n p : Nat) : getBit (List.replicate n (0 : UInt8)) p = false := by
  unfold getBit
  have : (List.replicate n (0 : UInt8)).getD (p / 8) 0 = 0 := by
    rw [List.getD_eq_getElem?_getD, List.getElem?_replicate]
    split <;> rfl
  rw [this]; simp

theorem bloom_init_abs (h : BloomHandle) (s : Store) (hsize : 1 ≤ h.size) (hk : 1 ≤ h.k) :
    ∃ s', bloomInit h s = (s', some ()) ∧ absBloom s' h = some (Bloom.new h.size h.k) ∧
      ∀ k, k ≠ h.bitsetKey → s' k = s k := by
  refine ⟨s.set h.bitsetKey (.str (List.replicate h.size 0)), rfl, ?_, fun k hk => Store.set_ne _ _ hk⟩
  refine (absBloom_eq_some_iff _ _ _).mpr ⟨_, Store.set_self _ _ _, by simp; omega, ?_⟩
  have e1 : max h.size 1 = h.size := by omega
  have e2 : max h.k 1 = h.k := by omega
  simp only [Bloom.new, e1, e2, Bloom.mk.injEq, true_and]
  apply List.ext_getElem?
  intro p
  simp only [List.getElem?_replicate, List.getElem?_take, bitsOf, List.getElem?_map,
    List.length_replicate]
  by_cases hp : p < h.size
  · rw [List.getElem?_range (by omega)]
    simp [hp, getBit_zeros]
  · simp [hp]

end Gostatix.Redis
