/-
  Proofs/LoopTieCMS — helpers of Props/LoopTieCMS.lean: the loop rule of `GoLoop.forN`
  (`forN_inv`, `forN_eq_of_inv`: an invariant indexed by the iteration number), the evaluation of
  the checked index / store primitives inside their bounds, element-wise (`[j]?`) descriptions of
  the list recursions of the machine model `CMSM` (`updRowsM`, `cellsM`, `addRowsM`), and one
  lemma per generated loop definition of Generated/Loops.lean:

      getPositions_loop   cmsGetPositions_loop1 = the list of `cmsPosition .. c ..`, c = 0 .. rows-1
      update_loop         cmsUpdate_loop1       = `updRowsM`
      count_loop          cmsCount_loop1        = `minInitM (cellsM ..)`
      merge_loop1         cmsMerge_loop1        = a copy of the other matrix
      merge_loop2         cmsMerge_loop2        = `addRowsM`

  The loop bodies are never spelled out here: every proof unfolds the generated definition,
  applies the loop rule with an invariant of the shape "the entries below `i` are done, the others
  untouched", and evaluates ONE iteration of whatever the extractor emitted by `simp` with the
  bounds facts.  So a different loop bound, a skipped row, a wrong index variable break the
  invariant step or the final step; a renamed variable or another spelling of the same loop
  does not.
-/
import Gostatix.Generated.Loops
import Gostatix.Model.CMSM
set_option linter.unusedSimpArgs false
set_option linter.unusedVariables false

namespace Gostatix.LoopTie
open Gostatix GoLoop

theorem forN_zero {σ} (init : σ) (body : Nat → σ → Option σ) : forN 0 init body = some init := rfl

theorem forN_succ {σ} (n : Nat) (init : σ) (body : Nat → σ → Option σ) :
    forN (n + 1) init body = (forN n init body).bind (body n) := by
  simp [forN, List.range_succ, List.foldl_append]

/-- the loop rule: an invariant that holds before the loop and is kept by every iteration that
    does not panic holds after the loop, and the loop does not panic. -/
theorem forN_inv {σ} (n : Nat) (init : σ) (body : Nat → σ → Option σ) (inv : Nat → σ → Prop)
    (h0 : inv 0 init)
    (hs : ∀ i s, i < n → inv i s → ∃ s', body i s = some s' ∧ inv (i + 1) s') :
    ∃ s, forN n init body = some s ∧ inv n s := by
  induction n with
  | zero => exact ⟨init, rfl, h0⟩
  | succ n ih =>
    obtain ⟨s, hs1, hs2⟩ := ih (fun i s hi h => hs i s (by omega) h)
    obtain ⟨s', hb, hi⟩ := hs n s (by omega) hs2
    exact ⟨s', by rw [forN_succ, hs1]; exact hb, hi⟩

/-- the loop rule with a determined result -/
theorem forN_eq_of_inv {σ} {n : Nat} {init : σ} {body : Nat → σ → Option σ} (inv : Nat → σ → Prop)
    (r : σ) (h0 : inv 0 init)
    (hs : ∀ i s, i < n → inv i s → ∃ s', body i s = some s' ∧ inv (i + 1) s')
    (hfin : ∀ s, inv n s → s = r) : forN n init body = some r := by
  obtain ⟨s, h1, h2⟩ := forN_inv n init body inv h0 hs
  rw [h1, hfin s h2]

theorem idx_of_lt {α} {l : List α} {i : Nat} (h : i < l.length) : idx l i = some l[i] := by
  simp [idx, h]

theorem idx_eq_none {α} {l : List α} {i : Nat} (h : l.length ≤ i) : idx l i = none := by
  simp [idx, h]

theorem set1_of_lt {α} {l : List α} {i : Nat} (v : α) (h : i < l.length) :
    set1 l i v = some (l.set i v) := by simp [set1, h]

theorem mod_of_ne {a b : UInt64} (h : b ≠ 0) : GoLoop.mod a b = some (a % b) := by simp [GoLoop.mod, h]

theorem toNat_ofNat_lt {i : Nat} (h : i < 2 ^ 64) : (UInt64.ofNat i).toNat = i := by
  exact UInt64.toNat_ofNat_of_lt' h


open Gostatix.Generated.Loops

/-- the position of row `c` as the Go statement computes it:
    `uint((hash1 + uint64(c)*hash2) % uint64(cms.columns))` (it is arith.go's kernel `cmsPosition`:
    Props/LoopTieCMSKernels.lean) -/
def posOf (h1 h2 cols : UInt64) (c : Nat) : UInt64 := (h1 + UInt64.ofNat c * h2) % cols

theorem getPositions_loop (cms : Sketch) (h1 h2 : UInt64) (ps : List UInt64)
    (hps : ps.length = cms.rows.toNat) (hc : cms.columns ≠ 0) :
    cmsGetPositions_loop1 cms ps h1 h2
      = some ((List.range ps.length).map (posOf h1 h2 cms.columns)) := by
  have hn : ps.length ≤ 2 ^ 64 := by rw [hps]; exact Nat.le_of_lt cms.rows.toNat_lt
  unfold cmsGetPositions_loop1
  try simp only [← hps]
  apply forN_eq_of_inv (fun i l => l.length = ps.length ∧
      ∀ j, l[j]? = if j < i then some (posOf h1 h2 cms.columns j) else ps[j]?)
  · exact ⟨rfl, fun j => by simp⟩
  · intro i l hi ⟨hlen, hget⟩
    have hi' : (UInt64.ofNat i).toNat = i := toNat_ofNat_lt (by omega)
    refine ⟨l.set i (posOf h1 h2 cms.columns i), ?_, by simpa using hlen, ?_⟩
    · simp [mod_of_ne hc, hi', set1_of_lt, hlen, hi, posOf]
    · intro j
      rw [List.getElem?_set]
      by_cases hji : i = j
      · subst hji; simp [hlen, hi]
      · have := hget j
        simp only [hji, if_false, this]
        by_cases h : j < i
        · simp [h, show j < i + 1 by omega]
        · simp [h, show ¬ j < i + 1 by omega]
  · intro l ⟨hlen, hget⟩
    apply List.ext_getElem?
    intro j
    rw [hget j]
    by_cases h : j < ps.length
    · simp [h]
    · simp [h]


theorem set_eq_modAt {α} (l : List α) (i : Nat) (f : α → α) (h : i < l.length) :
    l.set i (f l[i]) = modAt l i f := by
  induction l generalizing i with
  | nil => simp at h
  | cons a as ih =>
    cases i with
    | zero => simp [modAt]
    | succ i => simp [modAt, ih i (by simpa using h)]

/-- what `Update` does to row `j`: the probed cell (column `ps[j]`) is replaced by `f` of it -/
def rowStep (ps : List UInt64) (f : UInt64 → UInt64) (j : Nat) (row : List UInt64) : List UInt64 :=
  match ps[j]? with
  | some p => modAt row p.toNat f
  | none => row

theorem rowStep_nil (f : UInt64 → UInt64) (j : Nat) : rowStep [] f j = id := by
  funext row; simp [rowStep]

theorem rowStep_cons_succ (p : UInt64) (ps : List UInt64) (f : UInt64 → UInt64) (j : Nat) :
    rowStep (p :: ps) f (j + 1) = rowStep ps f j := by
  funext row; simp [rowStep]

theorem getElem?_updRowsM (m : List (List UInt64)) (ps : List UInt64) (c : UInt64) (j : Nat) :
    (CMSM.updRowsM m (ps.map UInt64.toNat) c)[j]?
      = (m[j]?).map (rowStep ps (fun cell => CMSM.cellUpdate cell c) j) := by
  induction m generalizing ps j with
  | nil => cases ps <;> simp [CMSM.updRowsM]
  | cons row m ih =>
    cases ps with
    | nil => simp [CMSM.updRowsM, rowStep_nil]
    | cons p ps =>
      cases j with
      | zero => simp [CMSM.updRowsM, rowStep]
      | succ j =>
        have := ih ps j
        simpa [CMSM.updRowsM, rowStep_cons_succ] using this

theorem update_loop (cms : Sketch) (count : UInt64) (ps : List UInt64)
    (hlen : ps.length = cms.matrix.length) (hw : cms.matrix.length = cms.rows.toNat)
    (hpos : ∀ j (h : j < ps.length) (h' : j < cms.matrix.length), ps[j].toNat < (cms.matrix[j]).length) :
    cmsUpdate_loop1 cms count ps
      = some { cms with matrix := CMSM.updRowsM cms.matrix (ps.map UInt64.toNat) count } := by
  have hlt : cms.matrix.length ≤ 2 ^ 64 := by rw [hw]; exact Nat.le_of_lt cms.rows.toNat_lt
  unfold cmsUpdate_loop1
  try simp only [← hw]
  try simp only [← hlen]
  apply forN_eq_of_inv (fun i s => s = { cms with matrix := s.matrix } ∧
      s.matrix.length = cms.matrix.length ∧
      ∀ j, s.matrix[j]? = if j < i then (cms.matrix[j]?).map (rowStep ps (fun cell => cell + count) j)
                          else cms.matrix[j]?)
  · exact ⟨rfl, rfl, fun j => by simp⟩
  · intro i s hi ⟨hs, hl, hget⟩
    have hi' : (UInt64.ofNat i).toNat = i := toNat_ofNat_lt (by omega)
    have him : i < cms.matrix.length := by omega
    have hrow : s.matrix[i]? = some cms.matrix[i] := by rw [hget i]; simp [him]
    have hrow' : s.matrix[i]'(by omega) = cms.matrix[i] := by
      have := List.getElem?_eq_getElem (l := s.matrix) (i := i) (by omega)
      rw [this] at hrow; exact Option.some.inj hrow
    have hc := hpos i hi him
    refine ⟨{ s with matrix := s.matrix.set i (rowStep ps (fun cell => cell + count) i cms.matrix[i]) }, ?_, ?_, ?_, ?_⟩
    · have e : rowStep ps (fun cell => cell + count) i cms.matrix[i]
          = cms.matrix[i].set ps[i].toNat (cms.matrix[i][ps[i].toNat] + count) := by
        simp [rowStep, hi, set_eq_modAt _ _ (fun cell => cell + count) hc]
      simp [idx_of_lt, set1_of_lt, hi, hi', hl, him, hrow', hc, e]
    · rw [hs]
    · simpa using hl
    · intro j
      show (s.matrix.set i _)[j]? = _
      rw [List.getElem?_set]
      by_cases hji : i = j
      · subst hji; simp [hl, him]
      · simp only [hji, if_false, hget j]
        by_cases h : j < i
        · simp [h, show j < i + 1 by omega]
        · simp [h, show ¬ j < i + 1 by omega]
  · intro s ⟨hs, hl, hget⟩
    rw [hs]
    congr 1
    apply List.ext_getElem?
    intro j
    rw [hget j, getElem?_updRowsM]
    by_cases h : j < ps.length
    · simp [h]; rfl
    · have : cms.matrix[j]? = none := by simp; omega
      simp [h, this]


theorem getElem?_cellsM (m : List (List UInt64)) (ps : List UInt64) (j : Nat) :
    (CMSM.cellsM m (ps.map UInt64.toNat))[j]?
      = match m[j]?, ps[j]? with
        | some row, some p => some (row.getD p.toNat 0)
        | _, _ => none := by
  induction m generalizing ps j with
  | nil => cases ps <;> simp [CMSM.cellsM]
  | cons row m ih =>
    cases ps with
    | nil => simp [CMSM.cellsM]
    | cons p ps =>
      cases j with
      | zero => simp [CMSM.cellsM]
      | succ j => simpa [CMSM.cellsM] using ih ps j

theorem length_cellsM (m : List (List UInt64)) (ps : List UInt64) (h : ps.length = m.length) :
    (CMSM.cellsM m (ps.map UInt64.toNat)).length = m.length := by
  induction m generalizing ps with
  | nil => cases ps <;> simp [CMSM.cellsM]
  | cons row m ih =>
    cases ps with
    | nil => simp at h
    | cons p ps => simp [CMSM.cellsM, ih ps (by simpa using h)]

theorem minInitM_snoc (v : UInt64) (vs : List UInt64) (x : UInt64) :
    CMSM.minInitM ((v :: vs) ++ [x])
      = if x < CMSM.minInitM (v :: vs) then x else CMSM.minInitM (v :: vs) := by
  show List.foldl _ v (vs ++ [x]) = if x < List.foldl _ v vs then x else List.foldl _ v vs
  rw [List.foldl_append]
  rfl

theorem count_loop (cms : Sketch) (ps : List UInt64)
    (hlen : ps.length = cms.matrix.length) (hw : cms.matrix.length = cms.rows.toNat)
    (hpos : ∀ j (h : j < ps.length) (h' : j < cms.matrix.length), ps[j].toNat < (cms.matrix[j]).length) :
    cmsCount_loop1 cms 0 ps = some (CMSM.minInitM (CMSM.cellsM cms.matrix (ps.map UInt64.toNat))) := by
  have hlt : cms.matrix.length ≤ 2 ^ 64 := by rw [hw]; exact Nat.le_of_lt cms.rows.toNat_lt
  unfold cmsCount_loop1
  try simp only [← hw]
  try simp only [← hlen]
  have hcl := length_cellsM cms.matrix ps hlen
  apply forN_eq_of_inv (fun i mn =>
      mn = CMSM.minInitM ((CMSM.cellsM cms.matrix (ps.map UInt64.toNat)).take i))
  · simp [CMSM.minInitM]
  · intro i mn hi hmn
    have hi' : (UInt64.ofNat i).toNat = i := toNat_ofNat_lt (by omega)
    have him : i < cms.matrix.length := by omega
    have hc := hpos i hi him
    have hcell : (CMSM.cellsM cms.matrix (ps.map UInt64.toNat))[i]'(by omega)
        = cms.matrix[i][ps[i].toNat] := by
      have h1 := getElem?_cellsM cms.matrix ps i
      rw [List.getElem?_eq_getElem (by omega)] at h1
      simp [him, hi, hc] at h1
      exact h1
    rw [List.take_succ_eq_append_getElem (by omega), hcell]
    by_cases h0 : i = 0
    · subst h0
      refine ⟨cms.matrix[0][ps[0].toNat], ?_, by simp [CMSM.minInitM]⟩
      simp [idx_of_lt, hi, him, hc]
    · have hne : (UInt64.ofNat i == 0) = false := by
        apply beq_false_of_ne
        intro h
        have := congrArg UInt64.toNat h
        rw [hi'] at this
        exact h0 (by simpa using this)
      obtain ⟨v, vs, hv⟩ : ∃ v vs, (CMSM.cellsM cms.matrix (ps.map UInt64.toNat)).take i = v :: vs := by
        cases h : (CMSM.cellsM cms.matrix (ps.map UInt64.toNat)).take i with
        | nil =>
          have := congrArg List.length h
          rw [List.length_take, hcl] at this
          simp only [List.length_nil] at this
          omega
        | cons v vs => exact ⟨v, vs, rfl⟩
      rw [hv] at hmn ⊢
      rw [minInitM_snoc, ← hmn]
      refine ⟨_, ?_, rfl⟩
      simp [idx_of_lt, hi, him, hc, hi', hne]
      split <;> rfl
  · intro mn hmn
    rw [hmn, List.take_of_length_le (by omega)]


/-- the shape of all the loops here: position `i` of a list is overwritten in iteration `i` -/
theorem getElem?_set_step {α} (l l0 : List α) (g : Nat → Option α) (i j : Nat) (v : α) (hi : i < l.length)
    (hget : ∀ j, l[j]? = if j < i then g j else l0[j]?) (hv : g i = some v) :
    (l.set i v)[j]? = if j < i + 1 then g j else l0[j]? := by
  rw [List.getElem?_set]
  by_cases hji : i = j
  · subst hji; simp [hi, hv]
  · simp only [hji, if_false, hget j]
    by_cases h : j < i
    · simp [h, show j < i + 1 by omega]
    · simp [h, show ¬ j < i + 1 by omega]

theorem merge_loop1 (cms1 : Sketch) (other : List (List UInt64))
    (hlen : other.length = cms1.matrix.length) (hw : cms1.matrix.length = cms1.rows.toNat) :
    cmsMerge_loop1 cms1 other = some cms1.matrix := by
  have hlt : cms1.matrix.length ≤ 2 ^ 64 := by rw [hw]; exact Nat.le_of_lt cms1.rows.toNat_lt
  unfold cmsMerge_loop1
  try simp only [← hw]
  apply forN_eq_of_inv (fun i l => l.length = other.length ∧
      ∀ j, l[j]? = if j < i then cms1.matrix[j]? else other[j]?)
  · exact ⟨rfl, fun j => by simp⟩
  · intro i l hi ⟨hl, hget⟩
    have hi' : (UInt64.ofNat i).toNat = i := toNat_ofNat_lt (by omega)
    refine ⟨l.set i cms1.matrix[i], ?_, by simpa using hl, ?_⟩
    · simp [idx_of_lt, set1_of_lt, hi, hi', hl, hlen]
    · intro j
      exact getElem?_set_step l other _ i j _ (by omega) hget (by simp [hi])
  · intro l ⟨hl, hget⟩
    apply List.ext_getElem?
    intro j
    rw [hget j]
    by_cases h : j < cms1.matrix.length
    · simp [h]
    · have : other[j]? = none := by simp; omega
      simp [h, this]

/-- what `Merge` does to row `j`: cell-wise `cellMerge` with row `j` of the other matrix -/
def rowMerge (other : List (List UInt64)) (j : Nat) (row : List UInt64) : List UInt64 :=
  match other[j]? with
  | some r2 => List.zipWith CMSM.cellMerge row r2
  | none => row

theorem rowMerge_nil (j : Nat) : rowMerge [] j = id := by
  funext row; simp [rowMerge]

theorem rowMerge_cons_succ (r : List UInt64) (o : List (List UInt64)) (j : Nat) :
    rowMerge (r :: o) (j + 1) = rowMerge o j := by
  funext row; simp [rowMerge]

theorem getElem?_addRowsM (a b : List (List UInt64)) (j : Nat) :
    (CMSM.addRowsM a b)[j]? = (a[j]?).map (rowMerge b j) := by
  induction a generalizing b j with
  | nil => cases b <;> simp [CMSM.addRowsM]
  | cons r1 a ih =>
    cases b with
    | nil => simp [CMSM.addRowsM, rowMerge_nil]
    | cons r2 b =>
      cases j with
      | zero => simp [CMSM.addRowsM, rowMerge]
      | succ j => simpa [CMSM.addRowsM, rowMerge_cons_succ] using ih b j

theorem merge_loop2 (cms : Sketch) (other : List (List UInt64))
    (hlen : other.length = cms.matrix.length) (hw : cms.matrix.length = cms.rows.toNat)
    (hC : ∀ j (h' : j < cms.matrix.length), (cms.matrix[j]).length = cms.columns.toNat)
    (hO : ∀ j (h : j < other.length), (other[j]).length = cms.columns.toNat) :
    cmsMerge_loop2 cms other = some { cms with matrix := CMSM.addRowsM cms.matrix other } := by
  have hlt : cms.matrix.length ≤ 2 ^ 64 := by rw [hw]; exact Nat.le_of_lt cms.rows.toNat_lt
  unfold cmsMerge_loop2
  try simp only [← hw]
  apply forN_eq_of_inv (fun i s => s = { cms with matrix := s.matrix } ∧
      s.matrix.length = cms.matrix.length ∧
      ∀ k, s.matrix[k]? = if k < i then (cms.matrix[k]?).map (rowMerge other k) else cms.matrix[k]?)
  · exact ⟨rfl, rfl, fun j => by simp⟩
  · intro i s hi ⟨hs, hl, hget⟩
    have hi' : (UInt64.ofNat i).toNat = i := toNat_ofNat_lt (by omega)
    have hio : i < other.length := by omega
    have hrow : s.matrix[i]'(by omega) = cms.matrix[i] := by
      have h1 := hget i
      rw [List.getElem?_eq_getElem (by omega)] at h1
      simpa [hi] using h1
    have hcl' := hC i hi
    have hol : (other[i]).length = (cms.matrix[i]).length := by rw [hO i hio, hcl']
    have hcl : (cms.matrix[i]).length ≤ 2 ^ 64 := by rw [hcl']; exact Nat.le_of_lt cms.columns.toNat_lt
    have hsc : s.columns = cms.columns := by rw [hs]
    -- the inner loop
    let Z := List.zipWith CMSM.cellMerge cms.matrix[i] other[i]
    have hZ : rowMerge other i cms.matrix[i] = Z := by simp [rowMerge, hio, Z]
    refine ⟨{ s with matrix := s.matrix.set i Z }, ?_, by rw [hs], by simpa using hl, ?_⟩
    · simp only [hi', idx_of_lt (show i < s.matrix.length by omega), Option.bind_some, hrow]
      try simp only [hsc, ← hcl']
      rw [Option.bind_eq_some_iff]
      refine ⟨{ s with matrix := s.matrix.set i Z }, ?_, by first | rfl | simp [hsc]⟩
      apply forN_eq_of_inv (fun j s' => s' = { cms with matrix := s'.matrix } ∧
          s'.matrix.length = cms.matrix.length ∧
          (∀ k, k ≠ i → s'.matrix[k]? = s.matrix[k]?) ∧
          ∃ row, s'.matrix[i]? = some row ∧ row.length = (cms.matrix[i]).length ∧
            ∀ k, row[k]? = if k < j then Z[k]? else (cms.matrix[i])[k]?)
      · refine ⟨hs, hl, fun _ _ => rfl, cms.matrix[i], ?_, rfl, fun k => by simp⟩
        rw [List.getElem?_eq_getElem (by omega), hrow]
      · intro j s' hj ⟨hs', hl', hother, row, hrowi, hrl, hrget⟩
        have hj' : (UInt64.ofNat j).toNat = j := toNat_ofNat_lt (by omega)
        have hrowi' : s'.matrix[i]'(by omega) = row := by
          rw [List.getElem?_eq_getElem (by omega)] at hrowi
          exact Option.some.inj hrowi
        have hrj : row[j]'(by omega) = cms.matrix[i][j] := by
          have h1 := hrget j
          rw [List.getElem?_eq_getElem (by omega)] at h1
          simpa [hj] using h1
        have hZj : Z[j]? = some (cms.matrix[i][j] + other[i][j]'(by omega)) := by
          simp [Z, List.getElem?_zipWith, hj, hol, CMSM.cellMerge]
        refine ⟨{ s' with matrix := s'.matrix.set i (row.set j (cms.matrix[i][j] + other[i][j]'(by omega))) },
          ?_, by rw [hs'], by simpa using hl', ?_, ?_⟩
        · simp [idx_of_lt, set1_of_lt, hi', hj', hl', hi, hio, hrowi', hrl, hj, hol, hrj]
        · intro k hk
          show (s'.matrix.set i _)[k]? = _
          rw [List.getElem?_set_ne (Ne.symm hk)]
          exact hother k hk
        · refine ⟨row.set j (cms.matrix[i][j] + other[i][j]'(by omega)), ?_, by simpa using hrl, ?_⟩
          · show (s'.matrix.set i _)[i]? = _
            simp [hl', hi]
          · intro k
            exact getElem?_set_step row cms.matrix[i] (fun k => Z[k]?) j k _ (by omega) hrget hZj
      · intro s' ⟨hs', hl', hother, row, hrowi, hrl, hrget⟩
        rw [hs', hs]
        congr 1
        apply List.ext_getElem?
        intro k
        by_cases hk : k = i
        · subst hk
          rw [hrowi]
          simp only [List.getElem?_set, hl, hi, if_true]
          congr 1
          apply List.ext_getElem?
          intro c
          rw [hrget c]
          by_cases hc : c < (cms.matrix[k]).length
          · simp [hc]
          · simp [hc, Z, List.getElem?_zipWith]
        · rw [hother k hk, List.getElem?_set_ne (Ne.symm hk)]
    · intro k
      show (s.matrix.set i Z)[k]? = _
      exact getElem?_set_step s.matrix cms.matrix (fun k => (cms.matrix[k]?).map (rowMerge other k)) i k Z
        (by omega) hget (by simp [hi, hZ])
  · intro s ⟨hs, hl, hget⟩
    rw [hs]
    congr 1
    apply List.ext_getElem?
    intro j
    rw [hget j, getElem?_addRowsM]
    by_cases h : j < cms.matrix.length
    · simp [h]
    · have : cms.matrix[j]? = none := by simp; omega
      simp [h, this]

end Gostatix.LoopTie
