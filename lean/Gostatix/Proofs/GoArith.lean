/-
  Gostatix.Proofs.GoArith — `toNat` characterisations of the Go primitives of Model/GoArith.lean.
  These lemmas do not mention the generated definitions; Props/ArithTie.lean rewrites with them.
-/
import Gostatix.Model.GoArith
import Gostatix.Model.HLL
namespace Gostatix.GoArith

theorem toNat_goShl (x n : UInt64) : (goShl x n).toNat = (x.toNat * 2 ^ n.toNat) % 2 ^ 64 := by
  unfold goShl
  by_cases h : n < 64
  · have h' : n.toNat < 64 := by simpa [UInt64.lt_iff_toNat_lt] using h
    simp [h, UInt64.toNat_shiftLeft, Nat.shiftLeft_eq, Nat.mod_eq_of_lt h']
  · have h' : 64 ≤ n.toNat := by
      have : ¬ n.toNat < 64 := by simpa [UInt64.lt_iff_toNat_lt] using h
      omega
    have hd : 2 ^ 64 ∣ x.toNat * 2 ^ n.toNat :=
      Nat.dvd_trans (Nat.pow_dvd_pow 2 h') (Nat.dvd_mul_left _ _)
    simp [h, Nat.mod_eq_zero_of_dvd hd]

theorem toNat_goShr (x n : UInt64) : (goShr x n).toNat = x.toNat / 2 ^ n.toNat := by
  unfold goShr
  by_cases h : n < 64
  · have h' : n.toNat < 64 := by simpa [UInt64.lt_iff_toNat_lt] using h
    simp [h, UInt64.toNat_shiftRight, Nat.shiftRight_eq_div_pow, Nat.mod_eq_of_lt h']
  · have h' : 64 ≤ n.toNat := by
      have : ¬ n.toNat < 64 := by simpa [UInt64.lt_iff_toNat_lt] using h
      omega
    have hx : x.toNat < 2 ^ n.toNat :=
      Nat.lt_of_lt_of_le x.toNat_lt (Nat.pow_le_pow_right (by decide) h')
    simp [h, Nat.div_eq_of_lt hx]

/-- the bit scan agrees with the `log2` formula of the hand-written model. -/
theorem clzAux_eq (i x : Nat) (hx : x < 2 ^ i) :
    clzAux i x = i - (if x = 0 then 0 else Nat.log2 x + 1) := by
  induction i with
  | zero =>
    have : x = 0 := by simpa using hx
    simp [clzAux, this]
  | succ i ih =>
    unfold clzAux
    by_cases hb : x.testBit i = true
    · have hge : x ≥ 2 ^ i := Nat.ge_two_pow_of_testBit hb
      have hpos : 0 < 2 ^ i := Nat.pow_pos (by decide)
      have hx0 : x ≠ 0 := by omega
      have h1 : Nat.log2 x < i + 1 := (Nat.log2_lt hx0).2 hx
      have h2 : ¬ Nat.log2 x < i := fun h => by
        have := (Nat.log2_lt hx0).1 h
        omega
      simp [hb, hx0]
      omega
    · have hlt : x < 2 ^ i := by
        rw [Nat.testBit_eq_decide_div_mod_eq] at hb
        have hq : x / 2 ^ i < 2 := by
          rw [Nat.div_lt_iff_lt_mul (Nat.pow_pos (by decide))]
          rw [Nat.pow_succ] at hx
          omega
        have hz : x / 2 ^ i = 0 := by
          have hodd : ¬ (x / 2 ^ i % 2 = 1) := by simpa using hb
          generalize x / 2 ^ i = q at hq hodd
          omega
        rcases (Nat.div_eq_zero_iff).1 hz with h | h
        · have := Nat.pow_pos (n := i) (show 0 < 2 by decide); omega
        · exact h
      rw [if_neg hb, ih hlt]
      by_cases hx0 : x = 0
      · simp [hx0]
      · have : Nat.log2 x < i := (Nat.log2_lt hx0).2 hlt
        simp [hx0]
        omega

theorem clzAux_le (i x : Nat) : clzAux i x ≤ i := by
  induction i with
  | zero => simp [clzAux]
  | succ i ih => unfold clzAux; split <;> omega

theorem toNat_clz64u (x : UInt64) : (clz64u x).toNat = HLL.clz64 x.toNat := by
  have hle := clzAux_le 64 x.toNat
  have h := clzAux_eq 64 x.toNat x.toNat_lt
  have hsz : clzAux 64 x.toNat < UInt64.size := Nat.lt_of_le_of_lt hle (by decide)
  unfold clz64u HLL.clz64
  rw [UInt64.toNat_ofNat_of_lt' hsz, h]
  by_cases hx0 : x.toNat = 0
  · simp [hx0]
  · have : Nat.log2 x.toNat < 64 := (Nat.log2_lt hx0).2 x.toNat_lt
    simp [hx0]
    omega

theorem toNat_trunc8 (x : UInt64) : (trunc8 x).toNat = x.toNat % 256 := by
  simp [trunc8]

theorem toNat_trunc16 (x : UInt64) : (trunc16 x).toNat = x.toNat % 65536 := by
  simp [trunc16]

theorem toNat_trunc32 (x : UInt64) : (trunc32 x).toNat = x.toNat % 4294967296 := by
  simp [trunc32]

end Gostatix.GoArith
