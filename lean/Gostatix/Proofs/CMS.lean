/-
  Gostatix.Proofs.CMS — helper lemmas for the Count-Min sketch properties (C03, C12).

  The histories are folded explicitly (`List.foldl`); `Props/C03.lean` names the fold `run`.
  Central invariant (`foldl_update_cell`): in a sketch of shape `rows × cols`,
      cell (r,c) after the history `h`  =  cell (r,c) before  +  `weight pos h r c`
  where `weight pos h r c` is the sum of the counts of the entries whose column in row `r` is `c`.
-/
import Gostatix.Model.CMS
namespace Gostatix.CMS

/-! ### generic list helpers -/

theorem getD_mem {α} (l : List α) (i : Nat) (d : α) (h : i < l.length) : l.getD i d ∈ l := by
  induction l generalizing i with
  | nil => simp at h
  | cons a as ih =>
    cases i with
    | zero => simp
    | succ i => simp only [List.getD_cons_succ]; exact List.mem_cons_of_mem _ (ih i (by simpa using h))

theorem getD_of_ge {α} (l : List α) (i : Nat) (d : α) (h : l.length ≤ i) : l.getD i d = d := by
  induction l generalizing i with
  | nil => simp
  | cons a as ih =>
    cases i with
    | zero => simp at h
    | succ i => simp only [List.getD_cons_succ]; exact ih i (by simpa using h)

theorem getD_replicate' {α} (n i : Nat) (a : α) : (List.replicate n a).getD i a = a := by
  induction n generalizing i with
  | zero => simp
  | succ n ih =>
    cases i with
    | zero => simp [List.replicate_succ]
    | succ i => simp only [List.replicate_succ, List.getD_cons_succ]; exact ih i

theorem list_ext_getD {α} (d : α) (l₁ l₂ : List α) (hl : l₁.length = l₂.length)
    (h : ∀ i, i < l₁.length → l₁.getD i d = l₂.getD i d) : l₁ = l₂ := by
  induction l₁ generalizing l₂ with
  | nil => cases l₂ with
    | nil => rfl
    | cons b bs => simp at hl
  | cons a as ih =>
    cases l₂ with
    | nil => simp at hl
    | cons b bs =>
      have h0 := h 0 (by simp)
      simp only [List.getD_cons_zero] at h0
      have := ih bs (by simpa using hl) (fun i hi => by
        have := h (i+1) (by simpa using hi)
        simpa using this)
      rw [h0, this]

theorem zipWith_add_getD (l₁ l₂ : List Nat) (c : Nat) (hl : l₁.length = l₂.length) :
    (List.zipWith (· + ·) l₁ l₂).getD c 0 = l₁.getD c 0 + l₂.getD c 0 := by
  induction l₁ generalizing l₂ c with
  | nil =>
    cases l₂ with
    | nil => rfl
    | cons b bs => simp at hl
  | cons a as ih =>
    cases l₂ with
    | nil => simp at hl
    | cons b bs =>
      cases c with
      | zero => simp
      | succ c => simpa using ih bs c (by simpa using hl)

/-! ### the minimum used by `Count` -/

/-- the fold step of `minInit` -/
abbrev minStep (mn x : Nat) : Nat := if x < mn then x else mn

theorem minStep_le_left (mn x : Nat) : minStep mn x ≤ mn := by
  simp only [minStep]; split <;> omega

theorem minStep_le_right (mn x : Nat) : minStep mn x ≤ x := by
  simp only [minStep]; split <;> omega

theorem foldMin_le_init (vs : List Nat) (v : Nat) : vs.foldl minStep v ≤ v := by
  induction vs generalizing v with
  | nil => exact Nat.le_refl _
  | cons x vs ih =>
    simp only [List.foldl_cons]
    exact Nat.le_trans (ih (minStep v x)) (minStep_le_left v x)

theorem foldMin_le_mem (vs : List Nat) (v x : Nat) (hx : x ∈ vs) : vs.foldl minStep v ≤ x := by
  induction vs generalizing v with
  | nil => cases hx
  | cons y vs ih =>
    simp only [List.foldl_cons]
    cases hx with
    | head =>
      exact Nat.le_trans (foldMin_le_init vs (minStep v x)) (minStep_le_right v x)
    | tail _ h => exact ih _ h

theorem foldMin_mem (vs : List Nat) (v : Nat) : vs.foldl minStep v = v ∨ vs.foldl minStep v ∈ vs := by
  induction vs generalizing v with
  | nil => left; rfl
  | cons x vs ih =>
    simp only [List.foldl_cons]
    rcases ih (minStep v x) with h | h
    · rw [h]; simp only [minStep]
      split
      · right; exact List.mem_cons_self
      · left; rfl
    · right; exact List.mem_cons_of_mem _ h

theorem minInit_nil : minInit [] = 0 := rfl

theorem minInit_le (l : List Nat) (v : Nat) (hv : v ∈ l) : minInit l ≤ v := by
  cases l with
  | nil => cases hv
  | cons a as =>
    show as.foldl minStep a ≤ v
    cases hv with
    | head => exact foldMin_le_init as v
    | tail _ h => exact foldMin_le_mem as a v h

theorem minInit_mem (l : List Nat) (hne : l ≠ []) : minInit l ∈ l := by
  cases l with
  | nil => exact absurd rfl hne
  | cons a as =>
    show as.foldl minStep a ∈ a :: as
    rcases foldMin_mem as a with h | h
    · rw [h]; exact List.mem_cons_self
    · exact List.mem_cons_of_mem _ h

theorem le_minInit (l : List Nat) (k : Nat) (hne : l ≠ []) (h : ∀ v ∈ l, k ≤ v) : k ≤ minInit l :=
  h _ (minInit_mem l hne)

theorem minInit_eq_zero (l : List Nat) (h : ∀ v ∈ l, v = 0) : minInit l = 0 := by
  cases l with
  | nil => rfl
  | cons a as => exact h _ (minInit_mem (a :: as) (by simp))

/-! ### matrices: cells and shapes -/

/-- cell `(r,c)` of a matrix (0 outside the matrix). -/
def cell (m : List (List Nat)) (r c : Nat) : Nat := (m.getD r []).getD c 0

/-- `m` has exactly `rows` rows, each with exactly `cols` columns. -/
def Shape (m : List (List Nat)) (rows cols : Nat) : Prop :=
  m.length = rows ∧ ∀ row ∈ m, row.length = cols

theorem Shape.row_length {m : List (List Nat)} {rows cols : Nat} (hs : Shape m rows cols)
    (r : Nat) (hr : r < rows) : (m.getD r []).length = cols :=
  hs.2 _ (getD_mem m r [] (by rw [hs.1]; exact hr))

theorem cell_of_row_ge (m : List (List Nat)) (r c : Nat) (h : m.length ≤ r) : cell m r c = 0 := by
  unfold cell; rw [getD_of_ge m r [] h]; rfl

theorem cell_of_col_ge (m : List (List Nat)) (r c : Nat) (h : (m.getD r []).length ≤ c) :
    cell m r c = 0 := getD_of_ge _ _ _ h

theorem mat_ext (m₁ m₂ : List (List Nat)) (rows cols : Nat)
    (h₁ : Shape m₁ rows cols) (h₂ : Shape m₂ rows cols)
    (h : ∀ r, r < rows → ∀ c, c < cols → cell m₁ r c = cell m₂ r c) : m₁ = m₂ := by
  apply list_ext_getD [] m₁ m₂ (by rw [h₁.1, h₂.1])
  intro r hr
  rw [h₁.1] at hr
  apply list_ext_getD 0 _ _ (by rw [h₁.row_length r hr, h₂.row_length r hr])
  intro c hc
  rw [h₁.row_length r hr] at hc
  exact h r hr c hc

theorem new_shape (rows cols : Nat) : Shape (CMS.new rows cols).m rows cols := by
  refine ⟨by simp [new], ?_⟩
  intro row hrow
  simp only [new, List.mem_replicate] at hrow
  rw [hrow.2]; simp

theorem new_cell (rows cols r c : Nat) : cell (CMS.new rows cols).m r c = 0 := by
  simp only [cell, new]
  by_cases hr : r < rows
  · have : (List.replicate rows (List.replicate cols 0)).getD r [] = List.replicate cols 0 := by
      have hm := getD_mem (List.replicate rows (List.replicate cols 0)) r [] (by simpa using hr)
      exact (List.mem_replicate.mp hm).2
    rw [this]; exact getD_replicate' cols c 0
  · rw [getD_of_ge _ r [] (by simpa using Nat.le_of_not_lt hr)]; simp

/-! ### `updRows` -/

theorem updRows_length (m : List (List Nat)) (pos : List Nat) (c : Nat) :
    (updRows m pos c).length = m.length := by
  induction m generalizing pos with
  | nil => cases pos <;> rfl
  | cons row m ih =>
    cases pos with
    | nil => rfl
    | cons p pos => simp [updRows, ih]

theorem updRows_shape (m : List (List Nat)) (pos : List Nat) (c rows cols : Nat)
    (hs : Shape m rows cols) : Shape (updRows m pos c) rows cols := by
  refine ⟨by rw [updRows_length]; exact hs.1, ?_⟩
  have h2 := hs.2
  clear hs
  induction m generalizing pos with
  | nil => cases pos <;> exact h2
  | cons row m ih =>
    cases pos with
    | nil => exact h2
    | cons p pos =>
      intro row' hrow'
      simp only [updRows, List.mem_cons] at hrow'
      rcases hrow' with e | e
      · rw [e, modAt_length]; exact h2 row List.mem_cons_self
      · exact ih pos (fun x hx => h2 x (List.mem_cons_of_mem _ hx)) row' e

/-- one update adds `c` to exactly the cell `(r, pos[r])` of every row `r`. -/
theorem updRows_cell (m : List (List Nat)) (pos : List Nat) (c r col : Nat)
    (hr : r < m.length) (hp : r < pos.length) (hlt : pos.getD r 0 < (m.getD r []).length) :
    cell (updRows m pos c) r col = cell m r col + (if pos.getD r 0 = col then c else 0) := by
  induction m generalizing pos r with
  | nil => simp at hr
  | cons row m ih =>
    cases pos with
    | nil => simp at hp
    | cons p pos =>
      cases r with
      | zero =>
        simp only [List.getD_cons_zero] at hlt
        simp only [cell, updRows, List.getD_cons_zero]
        rw [modAt_getD row p col (· + c) 0 hlt]
        by_cases e : col = p
        · subst e; simp
        · have e' : ¬ p = col := fun h => e h.symm
          simp [e, e']
      | succ r =>
        have := ih pos r (by simpa using hr) (by simpa using hp) (by simpa using hlt)
        simpa [cell, updRows] using this

/-! ### weights of a history -/

section weights
variable {E : Type}

/-- total count sent to cell `(r,col)` by the history `h`. -/
def weight (pos : E → List Nat) (h : List (E × Nat)) (r col : Nat) : Nat :=
  sumL ((h.filter (fun ec => (pos ec.1).getD r 0 = col)).map (·.2))

theorem weight_nil (pos : E → List Nat) (r col : Nat) : weight pos [] r col = 0 := rfl

theorem weight_cons (pos : E → List Nat) (ec : E × Nat) (h : List (E × Nat)) (r col : Nat) :
    weight pos (ec :: h) r col
      = (if (pos ec.1).getD r 0 = col then ec.2 else 0) + weight pos h r col := by
  simp only [weight, List.filter_cons]
  split <;> simp_all

theorem weight_append (pos : E → List Nat) (a b : List (E × Nat)) (r col : Nat) :
    weight pos (a ++ b) r col = weight pos a r col + weight pos b r col := by
  simp [weight, List.filter_append, sumL_append]

theorem weight_le_total (pos : E → List Nat) (h : List (E × Nat)) (r col : Nat) :
    weight pos h r col ≤ sumL (h.map (·.2)) := by
  induction h with
  | nil => exact Nat.le_refl _
  | cons ec h ih =>
    rw [weight_cons]
    simp only [List.map_cons, sumL_cons]
    split <;> omega

theorem trueCount_le_weight [DecidableEq E] (pos : E → List Nat) (h : List (E × Nat)) (x : E)
    (r : Nat) :
    sumL ((h.filter (fun ec => ec.1 = x)).map (·.2)) ≤ weight pos h r ((pos x).getD r 0) := by
  induction h with
  | nil => exact Nat.le_refl _
  | cons ec h ih =>
    rw [weight_cons]
    simp only [List.filter_cons]
    by_cases e : ec.1 = x
    · simp only [e, decide_true, if_true, List.map_cons, sumL_cons]; omega
    · simp only [e, decide_false]
      exact Nat.le_trans ih (Nat.le_add_left _ _)

theorem trueCount_eq_total_of_all [DecidableEq E] (h : List (E × Nat)) (x : E)
    (hall : ∀ ec ∈ h, ec.1 = x) :
    sumL ((h.filter (fun ec => ec.1 = x)).map (·.2)) = sumL (h.map (·.2)) := by
  have : h.filter (fun ec => ec.1 = x) = h := by
    apply List.filter_eq_self.mpr
    intro ec hec; simp [hall ec hec]
  rw [this]

/-! ### the invariant -/

/-- `update` keeps `rows`, `cols` and the shape, so does a whole history. -/
theorem foldl_update_rows (pos : E → List Nat) (s : CMS) (h : List (E × Nat)) :
    (h.foldl (fun (s : CMS) ec => s.update (pos ec.1) ec.2) s).rows = s.rows
    ∧ (h.foldl (fun (s : CMS) ec => s.update (pos ec.1) ec.2) s).cols = s.cols := by
  induction h generalizing s with
  | nil => exact ⟨rfl, rfl⟩
  | cons ec h ih => simp only [List.foldl_cons]; exact ih _

theorem foldl_update_shape (pos : E → List Nat) (rows cols : Nat) (s : CMS)
    (hs : Shape s.m rows cols) (h : List (E × Nat)) :
    Shape (h.foldl (fun (s : CMS) ec => s.update (pos ec.1) ec.2) s).m rows cols := by
  induction h generalizing s with
  | nil => exact hs
  | cons ec h ih =>
    simp only [List.foldl_cons]
    exact ih _ (updRows_shape s.m _ _ rows cols hs)

/-- **Invariant**: after the history `h`, cell `(r,col)` has grown by exactly the sum of the
    counts of the entries of `h` that hash to column `col` in row `r`. -/
theorem foldl_update_cell (pos : E → List Nat) (rows cols : Nat)
    (hpos : ∀ e, (pos e).length = rows ∧ ∀ p ∈ pos e, p < cols)
    (s : CMS) (hs : Shape s.m rows cols) (h : List (E × Nat)) (r col : Nat) (hr : r < rows) :
    cell (h.foldl (fun (s : CMS) ec => s.update (pos ec.1) ec.2) s).m r col
      = cell s.m r col + weight pos h r col := by
  induction h generalizing s with
  | nil => simp [weight_nil]
  | cons ec h ih =>
    simp only [List.foldl_cons]
    rw [ih (s.update (pos ec.1) ec.2) (updRows_shape s.m _ _ rows cols hs), weight_cons]
    have hl : r < (pos ec.1).length := by rw [(hpos ec.1).1]; exact hr
    have hc : (pos ec.1).getD r 0 < (s.m.getD r []).length := by
      rw [hs.row_length r hr]
      exact (hpos ec.1).2 _ (getD_mem _ r 0 hl)
    show cell (updRows s.m (pos ec.1) ec.2) r col + _ = _
    rw [updRows_cell s.m (pos ec.1) ec.2 r col (by rw [hs.1]; exact hr) hl hc]
    omega

end weights

/-! ### `cells` / `count` -/

theorem mem_cells (m : List (List Nat)) (p : List Nat) (v : Nat) :
    v ∈ cells m p ↔ ∃ r, r < m.length ∧ r < p.length ∧ v = cell m r (p.getD r 0) := by
  induction m generalizing p with
  | nil => cases p <;> simp [cells]
  | cons row m ih =>
    cases p with
    | nil => simp [cells]
    | cons q p =>
      simp only [cells, List.mem_cons, ih p]
      constructor
      · rintro (h | ⟨r, h1, h2, h3⟩)
        · exact ⟨0, by simp, by simp, by simpa [cell] using h⟩
        · exact ⟨r + 1, by simpa using h1, by simpa using h2, by simpa [cell] using h3⟩
      · rintro ⟨r, h1, h2, h3⟩
        cases r with
        | zero => left; simpa [cell] using h3
        | succ r =>
          right
          exact ⟨r, by simpa using h1, by simpa using h2, by simpa [cell] using h3⟩

theorem cells_ne_nil (m : List (List Nat)) (p : List Nat) (hm : 0 < m.length) (hp : 0 < p.length) :
    cells m p ≠ [] := by
  intro h
  have : cell m 0 (p.getD 0 0) ∈ cells m p := (mem_cells m p _).mpr ⟨0, hm, hp, rfl⟩
  rw [h] at this; cases this

theorem cells_eq_nil_of_rows (m : List (List Nat)) (p : List Nat) (h : m.length = 0) :
    cells m p = [] := by
  cases m with
  | nil => cases p <;> rfl
  | cons _ _ => simp at h

/-- lower bound on `count`: every probed cell is `≥ k` and there is at least one row. -/
theorem le_count (s : CMS) (p : List Nat) (k : Nat) (hm : 0 < s.m.length) (hp : 0 < p.length)
    (h : ∀ r, r < s.m.length → r < p.length → k ≤ cell s.m r (p.getD r 0)) : k ≤ s.count p := by
  apply le_minInit _ _ (cells_ne_nil s.m p hm hp)
  intro v hv
  obtain ⟨r, h1, h2, rfl⟩ := (mem_cells s.m p v).mp hv
  exact h r h1 h2

/-- upper bound on `count`: some probed cell is `≤ k`. -/
theorem count_le (s : CMS) (p : List Nat) (k r : Nat) (h1 : r < s.m.length) (h2 : r < p.length)
    (h : cell s.m r (p.getD r 0) ≤ k) : s.count p ≤ k :=
  Nat.le_trans (minInit_le _ _ ((mem_cells s.m p _).mpr ⟨r, h1, h2, rfl⟩)) h

/-- `count` is attained at some probed row (when there is one). -/
theorem count_attained (s : CMS) (p : List Nat) (hm : 0 < s.m.length) (hp : 0 < p.length) :
    ∃ r, r < s.m.length ∧ r < p.length ∧ s.count p = cell s.m r (p.getD r 0) :=
  (mem_cells s.m p _).mp (minInit_mem _ (cells_ne_nil s.m p hm hp))

theorem count_le_cell (s : CMS) (p : List Nat) (r : Nat) (h1 : r < s.m.length) (h2 : r < p.length) :
    s.count p ≤ cell s.m r (p.getD r 0) := count_le s p _ r h1 h2 (Nat.le_refl _)

theorem count_new (rows cols : Nat) (p : List Nat) : (CMS.new rows cols).count p = 0 := by
  apply minInit_eq_zero
  intro v hv
  obtain ⟨r, _, _, rfl⟩ := (mem_cells _ p v).mp hv
  exact new_cell rows cols r _

/-! ### bounds for a history run from an arbitrary well-shaped state -/

section bounds
variable {E : Type}

theorem foldl_count_lower [DecidableEq E] (pos : E → List Nat) (rows cols : Nat) (hrows : 1 ≤ rows)
    (hpos : ∀ e, (pos e).length = rows ∧ ∀ p ∈ pos e, p < cols)
    (s : CMS) (hs : Shape s.m rows cols) (h : List (E × Nat)) (x : E) :
    s.count (pos x) + sumL ((h.filter (fun ec => ec.1 = x)).map (·.2))
      ≤ (h.foldl (fun (s : CMS) ec => s.update (pos ec.1) ec.2) s).count (pos x) := by
  have hs' := foldl_update_shape pos rows cols s hs h
  apply le_count
  · rw [hs'.1]; exact hrows
  · rw [(hpos x).1]; exact hrows
  · intro r hr1 hr2
    rw [hs'.1] at hr1
    rw [foldl_update_cell pos rows cols hpos s hs h r _ hr1]
    have a := count_le_cell s (pos x) r (by rw [hs.1]; exact hr1) hr2
    have b := trueCount_le_weight pos h x r
    omega

theorem foldl_count_upper (pos : E → List Nat) (rows cols : Nat)
    (hpos : ∀ e, (pos e).length = rows ∧ ∀ p ∈ pos e, p < cols)
    (s : CMS) (hs : Shape s.m rows cols) (h : List (E × Nat)) (x : E) :
    (h.foldl (fun (s : CMS) ec => s.update (pos ec.1) ec.2) s).count (pos x)
      ≤ s.count (pos x) + sumL (h.map (·.2)) := by
  have hs' := foldl_update_shape pos rows cols s hs h
  by_cases hrows : 1 ≤ rows
  · obtain ⟨r, h1, h2, h3⟩ := count_attained s (pos x) (by rw [hs.1]; exact hrows)
      (by rw [(hpos x).1]; exact hrows)
    rw [hs.1] at h1
    apply count_le _ _ _ r (by rw [hs'.1]; exact h1) h2
    rw [foldl_update_cell pos rows cols hpos s hs h r _ h1, h3]
    have := weight_le_total pos h r ((pos x).getD r 0)
    omega
  · have : (h.foldl (fun (s : CMS) ec => s.update (pos ec.1) ec.2) s).count (pos x) = 0 := by
      show minInit (cells _ _) = 0
      rw [cells_eq_nil_of_rows _ _ (by rw [hs'.1]; omega)]; rfl
    omega

end bounds

/-! ### `addRows` (Merge) -/

theorem cms_ext (s t : CMS) (hr : s.rows = t.rows) (hc : s.cols = t.cols) (hm : s.m = t.m) :
    s = t := by
  cases s; cases t; simp only at hr hc hm; subst hr hc hm; rfl

theorem merge_ok (a b : CMS) (hr : a.rows = b.rows) (hc : a.cols = b.cols) :
    CMS.merge a b = .ok { a with m := addRows a.m b.m } := by
  simp [merge, hr, hc]

theorem merge_err (a b : CMS) (h : a.rows ≠ b.rows ∨ a.cols ≠ b.cols) :
    CMS.merge a b = .err := by
  unfold merge
  rcases h with h | h
  · simp [h]
  · simp [h]

theorem addRows_length (m₁ m₂ : List (List Nat)) : (addRows m₁ m₂).length = m₁.length := by
  induction m₁ generalizing m₂ with
  | nil => cases m₂ <;> rfl
  | cons r₁ m₁ ih =>
    cases m₂ with
    | nil => rfl
    | cons r₂ m₂ => simp [addRows, ih]

theorem addRows_shape (m₁ m₂ : List (List Nat)) (rows cols : Nat)
    (h₁ : Shape m₁ rows cols) (h₂ : Shape m₂ rows cols) : Shape (addRows m₁ m₂) rows cols := by
  refine ⟨by rw [addRows_length]; exact h₁.1, ?_⟩
  have a := h₁.2
  have b := h₂.2
  clear h₁ h₂
  induction m₁ generalizing m₂ with
  | nil => cases m₂ <;> exact a
  | cons r₁ m₁ ih =>
    cases m₂ with
    | nil => exact a
    | cons r₂ m₂ =>
      intro row hrow
      simp only [addRows, List.mem_cons] at hrow
      rcases hrow with e | e
      · rw [e, List.length_zipWith, a r₁ List.mem_cons_self, b r₂ List.mem_cons_self]
        exact Nat.min_self _
      · exact ih m₂ (fun x hx => a x (List.mem_cons_of_mem _ hx))
          (fun x hx => b x (List.mem_cons_of_mem _ hx)) row e

theorem addRows_cell (m₁ m₂ : List (List Nat)) (rows cols : Nat)
    (h₁ : Shape m₁ rows cols) (h₂ : Shape m₂ rows cols) (r c : Nat) :
    cell (addRows m₁ m₂) r c = cell m₁ r c + cell m₂ r c := by
  have hl : m₁.length = m₂.length := by rw [h₁.1, h₂.1]
  have a := h₁.2
  have b := h₂.2
  clear h₁ h₂
  induction m₁ generalizing m₂ r with
  | nil =>
    cases m₂ with
    | nil => simp [addRows, cell]
    | cons _ _ => simp at hl
  | cons r₁ m₁ ih =>
    cases m₂ with
    | nil => simp at hl
    | cons r₂ m₂ =>
      cases r with
      | zero =>
        simp only [cell, addRows, List.getD_cons_zero]
        exact zipWith_add_getD r₁ r₂ c
          (by rw [a r₁ List.mem_cons_self, b r₂ List.mem_cons_self])
      | succ r =>
        have := ih m₂ r (by simpa using hl) (fun x hx => a x (List.mem_cons_of_mem _ hx))
          (fun x hx => b x (List.mem_cons_of_mem _ hx))
        simpa [cell, addRows] using this

theorem addRows_comm (m₁ m₂ : List (List Nat)) (rows cols : Nat)
    (h₁ : Shape m₁ rows cols) (h₂ : Shape m₂ rows cols) : addRows m₁ m₂ = addRows m₂ m₁ := by
  apply mat_ext _ _ rows cols (addRows_shape _ _ _ _ h₁ h₂) (addRows_shape _ _ _ _ h₂ h₁)
  intro r _ c _
  rw [addRows_cell _ _ rows cols h₁ h₂, addRows_cell _ _ rows cols h₂ h₁]; omega

theorem addRows_assoc (m₁ m₂ m₃ : List (List Nat)) (rows cols : Nat)
    (h₁ : Shape m₁ rows cols) (h₂ : Shape m₂ rows cols) (h₃ : Shape m₃ rows cols) :
    addRows (addRows m₁ m₂) m₃ = addRows m₁ (addRows m₂ m₃) := by
  have h12 := addRows_shape _ _ _ _ h₁ h₂
  have h23 := addRows_shape _ _ _ _ h₂ h₃
  apply mat_ext _ _ rows cols (addRows_shape _ _ _ _ h12 h₃) (addRows_shape _ _ _ _ h₁ h23)
  intro r _ c _
  rw [addRows_cell _ _ rows cols h12 h₃, addRows_cell _ _ rows cols h₁ h₂,
    addRows_cell _ _ rows cols h₁ h23, addRows_cell _ _ rows cols h₂ h₃]; omega

/-- merging two runs (from well-shaped states) = running the concatenated history from the
    merged start state. -/
theorem addRows_foldl {E : Type} (pos : E → List Nat) (rows cols : Nat)
    (hpos : ∀ e, (pos e).length = rows ∧ ∀ p ∈ pos e, p < cols)
    (s₁ s₂ : CMS) (h₁ : Shape s₁.m rows cols) (h₂ : Shape s₂.m rows cols) (a b : List (E × Nat)) :
    addRows (a.foldl (fun (s : CMS) ec => s.update (pos ec.1) ec.2) s₁).m
        (b.foldl (fun (s : CMS) ec => s.update (pos ec.1) ec.2) s₂).m
      = ((a ++ b).foldl (fun (s : CMS) ec => s.update (pos ec.1) ec.2)
          { s₁ with m := addRows s₁.m s₂.m }).m := by
  have ha := foldl_update_shape pos rows cols s₁ h₁ a
  have hb := foldl_update_shape pos rows cols s₂ h₂ b
  have h12 : Shape ({ s₁ with m := addRows s₁.m s₂.m } : CMS).m rows cols :=
    addRows_shape _ _ _ _ h₁ h₂
  apply mat_ext _ _ rows cols (addRows_shape _ _ _ _ ha hb)
    (foldl_update_shape pos rows cols _ h12 (a ++ b))
  intro r hr c _
  rw [addRows_cell _ _ rows cols ha hb, foldl_update_cell pos rows cols hpos s₁ h₁ a r c hr,
    foldl_update_cell pos rows cols hpos s₂ h₂ b r c hr,
    foldl_update_cell pos rows cols hpos _ h12 (a ++ b) r c hr, weight_append]
  show _ = cell (addRows s₁.m s₂.m) r c + _
  rw [addRows_cell _ _ rows cols h₁ h₂]; omega

theorem addRows_new (rows cols : Nat) :
    addRows (CMS.new rows cols).m (CMS.new rows cols).m = (CMS.new rows cols).m := by
  apply mat_ext _ _ rows cols
    (addRows_shape _ _ _ _ (new_shape rows cols) (new_shape rows cols)) (new_shape rows cols)
  intro r _ c _
  rw [addRows_cell _ _ rows cols (new_shape rows cols) (new_shape rows cols), new_cell]

end Gostatix.CMS
