/-
  Gostatix.Proofs.RedisFrameOps — the scripts of the Redis-backed structures are supported on
  the keys of their handle (they read and write nothing else).
-/
import Gostatix.Proofs.RedisFrame
import Gostatix.Proofs.RedisKeys
namespace Gostatix.Redis

theorem CMSHandle.rowKey_mem (h : CMSHandle) {r : Nat} (hr : r < h.rows) :
    cmsRowKey h.key r ∈ h.keysOf := by
  unfold CMSHandle.keysOf CMSHandle.descr
  refine List.mem_map.mpr ⟨KeyD.row h.key r, ?_, rfl⟩
  exact List.mem_cons_of_mem _ (List.mem_map.mpr ⟨r, List.mem_range.mpr hr, rfl⟩)

theorem CMSHandle.metadataKey_mem (h : CMSHandle) : h.metadataKey ∈ h.keysOf := by
  unfold CMSHandle.keysOf CMSHandle.descr
  exact List.mem_map.mpr ⟨KeyD.base h.metadataKey, List.mem_cons_self, rfl⟩

theorem HLLHandle.key_mem (h : HLLHandle) : h.key ∈ h.keysOf := by
  simp [HLLHandle.keysOf, HLLHandle.descr, KeyD.render]

theorem HLLHandle.metadataKey_mem (h : HLLHandle) : h.metadataKey ∈ h.keysOf := by
  simp [HLLHandle.keysOf, HLLHandle.descr, KeyD.render]

theorem BloomHandle.bitsetKey_mem (h : BloomHandle) : h.bitsetKey ∈ h.keysOf := by
  simp [BloomHandle.keysOf, BloomHandle.descr, KeyD.render]

theorem BloomHandle.metadataKey_mem (h : BloomHandle) : h.metadataKey ∈ h.keysOf := by
  simp [BloomHandle.keysOf, BloomHandle.descr, KeyD.render]

/-! ### Count-Min Sketch -/

theorem supported_cmsInitLoop (K : List String) (key : String) (cols : Nat) (r n : Nat)
    (hK : ∀ j, r ≤ j → j < r + n → cmsRowKey key j ∈ K) :
    SupportedOn K (cmsInitLoop key cols r n) := by
  induction n generalizing r with
  | zero => exact supported_pure K ()
  | succ n ih =>
    have hk : cmsRowKey key r ∈ K := hK r (Nat.le_refl _) (by omega)
    unfold cmsInitLoop
    refine supported_bind (supported_DEL hk) fun _ => ?_
    refine supported_bind (supported_LPUSH hk _) fun _ => ?_
    exact ih (r + 1) (fun j h1 h2 => hK j (by omega) (by omega))

theorem supported_cmsUpdateLoop (K : List String) (key : String) (count : Nat) (r : Nat)
    (cs : List Nat) (hK : ∀ j, r ≤ j → j < r + cs.length → cmsRowKey key j ∈ K) :
    SupportedOn K (cmsUpdateLoop key count r cs) := by
  induction cs generalizing r with
  | nil => exact supported_pure K ()
  | cons c cs ih =>
    have hk : cmsRowKey key r ∈ K := hK r (Nat.le_refl _) (by simp)
    unfold cmsUpdateLoop
    refine supported_bind (supported_LINDEX hk c) fun v => ?_
    refine supported_bind (supported_luaNumber K v) fun n => ?_
    refine supported_bind (supported_try (supported_LSET hk c _)) fun _ => ?_
    exact ih (r + 1) (fun j h1 h2 => hK j (by omega) (by simp at h2 ⊢; omega))

theorem supported_cmsCountLoop (K : List String) (key : String) (r : Nat) (cs : List Nat) (mn : Nat)
    (hK : ∀ j, r ≤ j → j < r + cs.length → cmsRowKey key j ∈ K) :
    SupportedOn K (cmsCountLoop key r cs mn) := by
  induction cs generalizing r mn with
  | nil => exact supported_pure K mn
  | cons c cs ih =>
    have hk : cmsRowKey key r ∈ K := hK r (Nat.le_refl _) (by simp)
    unfold cmsCountLoop
    refine supported_bind (supported_LINDEX hk c) fun v => ?_
    refine supported_bind (supported_luaNumber K v) fun n => ?_
    exact ih (r + 1) _ (fun j h1 h2 => hK j (by omega) (by simp at h2 ⊢; omega))

theorem supported_cmsAddVals (K : List String) (n : Nat) (l1 l2 : List String) :
    SupportedOn K (cmsAddVals n l1 l2) := by
  induction n generalizing l1 l2 with
  | zero => exact supported_pure K []
  | succ n ih =>
    unfold cmsAddVals
    refine supported_bind (supported_luaNumber K _) fun x => ?_
    refine supported_bind (supported_luaNumber K _) fun y => ?_
    refine supported_bind (ih _ _) fun rest => ?_
    exact supported_pure K _

theorem supported_cmsMergeLoop (K : List String) (key1 key2 : String) (cols : Nat) (r n : Nat)
    (hK1 : ∀ j, r ≤ j → j < r + n → cmsRowKey key1 j ∈ K)
    (hK2 : ∀ j, r ≤ j → j < r + n → cmsRowKey key2 j ∈ K) :
    SupportedOn K (cmsMergeLoop key1 key2 cols r n) := by
  induction n generalizing r with
  | zero => exact supported_pure K ()
  | succ n ih =>
    have hk1 : cmsRowKey key1 r ∈ K := hK1 r (Nat.le_refl _) (by omega)
    have hk2 : cmsRowKey key2 r ∈ K := hK2 r (Nat.le_refl _) (by omega)
    unfold cmsMergeLoop
    refine supported_bind (supported_LRANGE hk1) fun v1 => ?_
    refine supported_bind (supported_LRANGE hk2) fun v2 => ?_
    refine supported_bind (supported_cmsAddVals K _ _ _) fun v3 => ?_
    refine supported_bind (supported_DEL hk1) fun _ => ?_
    refine supported_bind (supported_RPUSH hk1 _) fun _ => ?_
    exact ih (r + 1) (fun j h1 h2 => hK1 j (by omega) (by omega))
      (fun j h1 h2 => hK2 j (by omega) (by omega))

theorem supported_cmsInit (h : CMSHandle) : SupportedOn h.keysOf (cmsInit h) :=
  supported_cmsInitLoop _ _ _ _ _ (fun _ _ hj => h.rowKey_mem (by omega))

theorem supported_cmsUpdate (h : CMSHandle) (pos : List Nat) (count : Nat)
    (hlen : pos.length ≤ h.rows) : SupportedOn h.keysOf (cmsUpdate h pos count) :=
  supported_cmsUpdateLoop _ _ _ _ _ (fun _ _ hj => h.rowKey_mem (by omega))

theorem supported_cmsCount (h : CMSHandle) (pos : List Nat) (hlen : pos.length ≤ h.rows) :
    SupportedOn h.keysOf (cmsCount h pos) :=
  supported_cmsCountLoop _ _ _ _ _ (fun _ _ hj => h.rowKey_mem (by omega))

/-- a merge touches the keys of both sketches (it reads the second, writes the first). -/
theorem supported_cmsMerge (h1 h2 : CMSHandle) :
    SupportedOn (h1.keysOf ++ h2.keysOf) (cmsMerge h1 h2) := by
  unfold cmsMerge
  split
  · exact supported_fail _
  · rename_i hr
    split
    · exact supported_fail _
    · apply supported_cmsMergeLoop
      · intro j _ hj; exact List.mem_append_left _ (h1.rowKey_mem (by omega))
      · intro j _ hj
        have : h1.rows = h2.rows := Decidable.not_not.mp hr
        exact List.mem_append_right _ (h2.rowKey_mem (by omega))

/-! ### HyperLogLog -/

theorem supported_hllInit (h : HLLHandle) : SupportedOn h.keysOf (hllInit h) :=
  supported_bind (supported_LPUSH h.key_mem _) fun _ => supported_LPUSH h.key_mem _

theorem supported_hllUpdate (h : HLLHandle) (idx val : Nat) :
    SupportedOn h.keysOf (hllUpdate h idx val) :=
  supported_bind (supported_LINDEX h.key_mem _) fun _ =>
    supported_bind (supported_luaNumber _ _) fun _ => supported_LSET h.key_mem _ _

theorem supported_hllMergeVals (K : List String) (n : Nat) (l1 l2 : List String) :
    SupportedOn K (hllMergeVals n l1 l2) := by
  induction n generalizing l1 l2 with
  | zero => exact supported_pure K _
  | succ n ih =>
    unfold hllMergeVals
    refine supported_bind (supported_luaNumber K _) fun x => ?_
    refine supported_bind (supported_luaNumber K _) fun y => ?_
    refine supported_bind (ih _ _) fun rest => ?_
    exact supported_pure K _

theorem supported_hllMerge (h g : HLLHandle) :
    SupportedOn (h.keysOf ++ g.keysOf) (hllMerge h g) := by
  have hk : h.key ∈ h.keysOf ++ g.keysOf := List.mem_append_left _ h.key_mem
  have gk : g.key ∈ h.keysOf ++ g.keysOf := List.mem_append_right _ g.key_mem
  unfold hllMerge
  split
  · exact supported_fail _
  · unfold hllMergeScript
    refine supported_bind (supported_try (supported_LRANGE hk)) fun _ => ?_
    refine supported_bind (supported_try (supported_LRANGE gk)) fun _ => ?_
    refine supported_bind (supported_hllMergeVals _ _ _ _) fun _ => ?_
    refine supported_bind (supported_try (supported_DEL hk)) fun _ => ?_
    refine supported_bind (supported_try (supported_RPUSH hk _)) fun _ => ?_
    exact supported_pure _ _

/-! ### Bloom filter -/

theorem supported_bloomInsertLoop (K : List String) (key : String) (hk : key ∈ K) (ps : List Nat) :
    SupportedOn K (bloomInsertLoop key ps) := by
  induction ps with
  | nil => exact supported_pure K ()
  | cons p ps ih =>
    unfold bloomInsertLoop
    exact supported_bind (supported_SETBIT hk p) fun _ => ih

theorem supported_bloomLookupLoop (K : List String) (key : String) (hk : key ∈ K) (ps : List Nat) :
    SupportedOn K (bloomLookupLoop key ps) := by
  induction ps with
  | nil => exact supported_pure K true
  | cons p ps ih =>
    unfold bloomLookupLoop
    refine supported_bind (supported_try (supported_GETBIT hk p)) fun b => ?_
    split
    · exact ih
    · exact supported_pure K false

theorem supported_bloomInsert (h : BloomHandle) (ps : List Nat) :
    SupportedOn h.keysOf (bloomInsert h ps) := supported_bloomInsertLoop _ _ h.bitsetKey_mem ps

theorem supported_bloomLookup (h : BloomHandle) (ps : List Nat) :
    SupportedOn h.keysOf (bloomLookup h ps) := supported_bloomLookupLoop _ _ h.bitsetKey_mem ps

/-! ### metadata -/

theorem supported_cmsCreate (h : CMSHandle) : SupportedOn h.keysOf (cmsCreate h) :=
  supported_HSET h.metadataKey_mem _

theorem supported_hllCreate (h : HLLHandle) : SupportedOn h.keysOf (hllCreate h) :=
  supported_HSET h.metadataKey_mem _

theorem supported_bloomCreate (h : BloomHandle) : SupportedOn h.keysOf (bloomCreate h) :=
  supported_HSET h.metadataKey_mem _

end Gostatix.Redis
