/-
  Gostatix.Proofs.C04Exact — helper lemmas for Gostatix/Props/C04Exact.lean.

  * Count-Min: if some row `r` holds the cell of `x` free of every OTHER element of the history,
    the estimate of `x` after the history is exactly its true count (generalises
    `C03_exact_single`: there the history has no other element at all).
  * the events of a run of `TopK.insert` from a fresh sketch are `Exact` when every insert `i`
    has such a row with respect to the prefix `0..i` of the history.
  * the converses for histories with positive counts (`free_row_of_count_exact`,
    `sketchEvents_free_of_exact`).
  * a reported element of a reachable heap occurs in the history.
  * `offer` at `k = 0` on the empty heap.

  Core Lean only.
-/
import Gostatix.Props.C03
import Gostatix.Proofs.TopKE2E
namespace Gostatix.CMS

section
variable {E : Type} [DecidableEq E]

/-- in a row where no other element of the history shares the cell of `x`, the weight sent to
    that cell is the true count of `x` -/
theorem weight_eq_trueCount_of_free (pos : E → List Nat) (h : List (E × Nat)) (x : E) (r : Nat)
    (hfree : ∀ ec ∈ h, ec.1 ≠ x → (pos ec.1).getD r 0 ≠ (pos x).getD r 0) :
    weight pos h r ((pos x).getD r 0) = trueCount h x := by
  unfold weight trueCount
  congr 2
  apply List.filter_congr
  intro ec hec
  by_cases e : ec.1 = x
  · simp [e]
  · have := hfree ec hec e
    simp only [e, this, decide_false]

/-- **exact estimate from one collision-free row**: from the fresh `rows × cols` sketch, if row
    `r < rows` keeps the cell of `x` apart from the cells of all other elements of `h`, then
    `Count(x)` after `h` is the true count of `x` in `h`. -/
theorem count_exact_of_free_row (pos : E → List Nat) (rows cols : Nat) (hpos : PosOK pos rows cols)
    (h : List (E × Nat)) (x : E) (r : Nat) (hr : r < rows)
    (hfree : ∀ ec ∈ h, ec.1 ≠ x → (pos ec.1).getD r 0 ≠ (pos x).getD r 0) :
    (run pos (CMS.new rows cols) h).count (pos x) = trueCount h x := by
  apply Nat.le_antisymm
  · have hs' := foldl_update_shape pos rows cols _ (new_shape rows cols) h
    apply count_le _ _ _ r (by unfold run; rw [hs'.1]; exact hr) (by rw [(hpos x).1]; exact hr)
    unfold run
    rw [foldl_update_cell pos rows cols hpos _ (new_shape rows cols) h r _ hr, new_cell,
      weight_eq_trueCount_of_free pos h x r hfree]
    omega
  · exact C03_lower pos rows cols h x (by omega) hpos

/-! ### the converse, for positive counts -/

theorem trueCount_cons (ec : E × Nat) (h : List (E × Nat)) (x : E) :
    trueCount (ec :: h) x = (if ec.1 = x then ec.2 else 0) + trueCount h x := by
  simp only [trueCount, List.filter_cons]
  split <;> simp_all

/-- an entry contributes its count to the true count of its element -/
theorem le_trueCount_of_mem (h : List (E × Nat)) (ec : E × Nat) (hec : ec ∈ h) :
    ec.2 ≤ trueCount h ec.1 := by
  induction h with
  | nil => cases hec
  | cons a h ih =>
    rw [trueCount_cons]
    rcases List.mem_cons.1 hec with rfl | hec
    · simp
    · exact Nat.le_trans (ih hec) (Nat.le_add_left _ _)

/-- if all counts are positive and the weight of the cell of `x` in row `r` is just the true
    count of `x`, no other element of the history uses that cell -/
theorem free_of_weight_eq_trueCount (pos : E → List Nat) (h : List (E × Nat)) (x : E) (r : Nat)
    (hc : ∀ ec ∈ h, 1 ≤ ec.2)
    (hw : weight pos h r ((pos x).getD r 0) = trueCount h x) :
    ∀ ec ∈ h, ec.1 ≠ x → (pos ec.1).getD r 0 ≠ (pos x).getD r 0 := by
  induction h with
  | nil => intro ec hec; cases hec
  | cons a h ih =>
    rw [weight_cons, trueCount_cons] at hw
    have hle : trueCount h x ≤ weight pos h r ((pos x).getD r 0) := trueCount_le_weight pos h x r
    have ha := hc a (by simp)
    have hc' : ∀ ec ∈ h, 1 ≤ ec.2 := fun ec hec => hc ec (List.mem_cons_of_mem _ hec)
    by_cases e : a.1 = x
    · have e2 : (pos a.1).getD r 0 = (pos x).getD r 0 := by rw [e]
      rw [if_pos e2, if_pos e] at hw
      have := ih hc' (by omega)
      intro ec hec hne
      rcases List.mem_cons.1 hec with rfl | hec
      · exact absurd e hne
      · exact this ec hec hne
    · rw [if_neg e] at hw
      by_cases e2 : (pos a.1).getD r 0 = (pos x).getD r 0
      · rw [if_pos e2] at hw; omega
      · rw [if_neg e2] at hw
        have := ih hc' (by omega)
        intro ec hec hne
        rcases List.mem_cons.1 hec with rfl | hec
        · exact e2
        · exact this ec hec hne

/-- **converse of `count_exact_of_free_row`** for positive counts: if `Count(x)` is the true
    count of `x` (and `x` was inserted, or there is a row), some row keeps the cell of `x` free of
    all other elements of the history. -/
theorem free_row_of_count_exact (pos : E → List Nat) (rows cols : Nat) (hpos : PosOK pos rows cols)
    (h : List (E × Nat)) (x : E) (hc : ∀ ec ∈ h, 1 ≤ ec.2) (hx : ∃ ec ∈ h, ec.1 = x)
    (he : (run pos (CMS.new rows cols) h).count (pos x) = trueCount h x) :
    ∃ r, r < rows ∧ ∀ ec ∈ h, ec.1 ≠ x → (pos ec.1).getD r 0 ≠ (pos x).getD r 0 := by
  have hs' := foldl_update_shape pos rows cols _ (new_shape rows cols) h
  by_cases hrows : 1 ≤ rows
  · obtain ⟨r, h1, _, h3⟩ := count_attained (run pos (CMS.new rows cols) h) (pos x)
      (by unfold run; rw [hs'.1]; exact hrows) (by rw [(hpos x).1]; exact hrows)
    have h1' : r < rows := by unfold run at h1; rwa [hs'.1] at h1
    refine ⟨r, h1', free_of_weight_eq_trueCount pos h x r hc ?_⟩
    rw [h3] at he
    unfold run at he
    rw [foldl_update_cell pos rows cols hpos _ (new_shape rows cols) h r _ h1', new_cell] at he
    omega
  · exfalso
    have h0 : (run pos (CMS.new rows cols) h).count (pos x) = 0 := by
      show minInit (cells _ _) = 0
      rw [cells_eq_nil_of_rows _ _ (by unfold run; rw [hs'.1]; omega)]; rfl
    obtain ⟨ec, hec, rfl⟩ := hx
    have := le_trueCount_of_mem h ec hec
    have := hc ec hec
    omega

end
end Gostatix.CMS

namespace Gostatix.TopK

/-- the events of a run from the fresh sketch are exact as soon as every insert `i` finds a row
    in which its element shares its cell with no other element inserted SO FAR -/
theorem sketchEvents_exact_of_free (pos : String → List Nat) (rows cols : Nat)
    (hpos : CMS.PosOK pos rows cols) (h : List (String × Nat))
    (hfree : ∀ i (hi : i < h.length), ∃ r, r < rows ∧
      ∀ ec ∈ h.take (i + 1), ec.1 ≠ h[i].1 → (pos ec.1).getD r 0 ≠ (pos h[i].1).getD r 0) :
    Exact (sketchEvents pos (CMS.new rows cols) h) := by
  intro i hi
  have hi' : i < h.length := by rwa [sketchEvents_length] at hi
  rw [sketchEvents_getElem pos _ h i hi', sketchEvents_take, sketchEvents_trueTotal]
  obtain ⟨r, hr, hf⟩ := hfree i hi'
  exact CMS.count_exact_of_free_row pos rows cols hpos _ _ r hr hf

/-- conversely, with positive counts, exact events force such a row at every insert -/
theorem sketchEvents_free_of_exact (pos : String → List Nat) (rows cols : Nat)
    (hpos : CMS.PosOK pos rows cols) (h : List (String × Nat)) (hc : ∀ o ∈ h, 1 ≤ o.2)
    (hx : Exact (sketchEvents pos (CMS.new rows cols) h)) :
    ∀ i (hi : i < h.length), ∃ r, r < rows ∧
      ∀ ec ∈ h.take (i + 1), ec.1 ≠ h[i].1 → (pos ec.1).getD r 0 ≠ (pos h[i].1).getD r 0 := by
  intro i hi
  have := hx i (by rw [sketchEvents_length]; exact hi)
  rw [sketchEvents_getElem pos _ h i hi, sketchEvents_take, sketchEvents_trueTotal] at this
  have hmem : h[i] ∈ h.take (i + 1) := by
    rw [List.mem_take_iff_getElem]
    exact ⟨i, by omega, rfl⟩
  exact CMS.free_row_of_count_exact pos rows cols hpos _ _
    (fun ec hec => hc ec (List.mem_of_mem_take hec)) ⟨h[i], hmem, rfl⟩ this

/-- a reported element of a reachable heap is the element of some event of the history -/
theorem reach_mem_history {E : Type} [DecidableEq E] {k : Nat} {evs : List (Event E)}
    {heap : List (E × Nat)} (hr : Reach k evs heap) (he : EstOK evs) :
    ∀ p ∈ heap, p.1 ∈ evs.map (·.x) := by
  intro p hp
  obtain ⟨e, hmem, hx, _⟩ := lastEst_mem evs p.1 p.2 ((reach_inv hr he).stored p hp)
  exact List.mem_map.2 ⟨e, hmem, hx⟩

/-! ### `k = 0` -/

/-- the model at `k = 0` on the empty heap: the guard `len(heap) < k || f >= heap[0].frequency`
    is evaluated with `getD 0 ("", 0)`, i.e. it is TRUE (`f ≥ 0`); the entry is pushed and popped
    again.  The result is the empty heap – for every element and estimate. -/
theorem offer_zero_empty (x : String) (f : Nat) : offer 0 #[] x f = #[] := by
  rw [offer_eq_offerL]
  simp [offerL, GoHeap.push, GoHeap.up, GoHeap.pop, GoHeap.swap, GoHeap.down]

theorem offerRedis_zero_empty (x : String) (f : Nat) : offerRedis 0 [] x f = [] := by
  simp [offerRedis]

end Gostatix.TopK
