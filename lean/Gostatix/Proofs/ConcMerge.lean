/-
  Gostatix.Proofs.ConcMerge — helper lemmas for C16 with whole-`Merge` steps (Props/C16Merge.lean).

  * the step alphabets `CMSStep` / `HLLStep` (whole `Update` script, whole `Merge` script) and
    their semantics `cmsStepM` / `hllStepM`;
  * the steps commute pairwise in EVERY state, whatever the shapes of the target, of the position
    lists and of the merge sources are (`cmsStepM_commute`, `hllStepM_commute`): out-of-range
    updates are no-ops (`modAt`), `List.zipWith` truncates a row to the shorter operand, and a cell
    that a short source truncates away is lost in both orders;
  * an invariant-respecting variant of `exec_perm_of_commute` (not needed for the two alphabets
    above because they commute unconditionally; kept for alphabets that only commute on
    well-formed states);
  * the cell-level effect of one step and of a schedule on a well-shaped sketch.
  Core Lean only.
-/
import Gostatix.Proofs.Conc
import Gostatix.Proofs.CMS
import Gostatix.Proofs.HLL
namespace Gostatix
open Conc

universe u v

/-! ### generic: invariants of schedules -/
namespace Conc

/-- a property preserved by every step of the schedule holds at its end -/
theorem exec_invariant {σ : Type u} {α : Type v} {f : σ → α → σ} (I : σ → Prop) (w : List α)
    (hp : ∀ s, I s → ∀ a ∈ w, I (f s a)) (s : σ) (hs : I s) : I (exec f s w) := by
  induction w generalizing s with
  | nil => exact hs
  | cons a w ih =>
    exact ih (fun s hs b hb => hp s hs b (List.mem_cons_of_mem _ hb)) _
      (hp s hs a List.mem_cons_self)

/-- invariant-respecting variant of `foldl_perm_of_commute`: the steps that occur preserve `I`
    and commute on the states that satisfy `I`. -/
theorem foldl_perm_of_commute_inv {σ : Type u} {α : Type v} {f : σ → α → σ} (I : σ → Prop)
    {l₁ l₂ : List α} (p : l₁.Perm l₂)
    (hp : ∀ s, I s → ∀ a ∈ l₁, I (f s a))
    (hc : ∀ s, I s → ∀ a ∈ l₁, ∀ b ∈ l₁, f (f s a) b = f (f s b) a)
    (s : σ) (hs : I s) : l₁.foldl f s = l₂.foldl f s := by
  induction p generalizing s with
  | nil => rfl
  | cons a _ ih =>
    simp only [List.foldl_cons]
    exact ih (fun s hs b hb => hp s hs b (List.mem_cons_of_mem _ hb))
      (fun s hs b hb c hc' => hc s hs b (List.mem_cons_of_mem _ hb) c (List.mem_cons_of_mem _ hc'))
      _ (hp s hs a List.mem_cons_self)
  | swap a b l => simp only [List.foldl_cons]; rw [hc s hs b (by simp) a (by simp)]
  | trans p1 _ ih1 ih2 =>
    rw [ih1 hp hc s hs]
    exact ih2 (fun s hs a ha => hp s hs a (p1.mem_iff.2 ha))
      (fun s hs a ha b hb => hc s hs a (p1.mem_iff.2 ha) b (p1.mem_iff.2 hb)) s hs

theorem exec_perm_of_commute_inv {σ : Type u} {α : Type v} {f : σ → α → σ} (I : σ → Prop)
    {l₁ l₂ : List α} (p : l₁.Perm l₂)
    (hp : ∀ s, I s → ∀ a ∈ l₁, I (f s a))
    (hc : ∀ s, I s → ∀ a ∈ l₁, ∀ b ∈ l₁, f (f s a) b = f (f s b) a)
    (s : σ) (hs : I s) : exec f s l₁ = exec f s l₂ :=
  foldl_perm_of_commute_inv I p hp hc s hs

end Conc

theorem sumL_perm {l₁ l₂ : List Nat} (p : l₁.Perm l₂) : sumL l₁ = sumL l₂ := by
  induction p with
  | nil => rfl
  | cons a _ ih => simp [ih]
  | swap a b l => simp only [sumL_cons]; omega
  | trans _ _ ih1 ih2 => rw [ih1, ih2]

/-! ### Count-Min: rows -/

/-- adding a source row commutes with a point update of the target row — for ALL lengths and
    positions: when `p` is beyond the shorter of the two rows the update is lost in both orders
    (truncated away by `zipWith` on the left, out of range for `modAt` on the right). -/
theorem zipWith_add_modAt (row src : List Nat) (p c : Nat) :
    List.zipWith (· + ·) (modAt row p (· + c)) src = modAt (List.zipWith (· + ·) row src) p (· + c) := by
  induction row generalizing src p with
  | nil => rfl
  | cons a as ih =>
    cases src with
    | nil => cases p <;> rfl
    | cons b bs =>
      cases p with
      | zero => simp only [modAt, List.zipWith_cons_cons]; congr 1; omega
      | succ p => simp only [modAt, List.zipWith_cons_cons]; rw [ih]

/-- adding two source rows: the order is irrelevant (the result has the length of the shortest of
    the three rows either way). -/
theorem zipWith_add_right_comm (row a b : List Nat) :
    List.zipWith (· + ·) (List.zipWith (· + ·) row a) b
      = List.zipWith (· + ·) (List.zipWith (· + ·) row b) a := by
  induction row generalizing a b with
  | nil => rfl
  | cons x xs ih =>
    cases a with
    | nil => cases b <;> rfl
    | cons y ys =>
      cases b with
      | nil => rfl
      | cons z zs =>
        simp only [List.zipWith_cons_cons]
        rw [ih]; congr 1; omega

namespace CMS

/-- whole-matrix version: `Merge` then `Update` = `Update` then `Merge`, no shape hypothesis. -/
theorem addRows_updRows (m src : List (List Nat)) (pos : List Nat) (c : Nat) :
    addRows (updRows m pos c) src = updRows (addRows m src) pos c := by
  induction m generalizing src pos with
  | nil => cases pos <;> cases src <;> rfl
  | cons row m ih =>
    cases pos with
    | nil => cases src <;> rfl
    | cons p pos =>
      cases src with
      | nil => rfl
      | cons srow src =>
        simp only [updRows, addRows]
        rw [ih, zipWith_add_modAt]

/-- two merges into the same target commute, no shape hypothesis. -/
theorem addRows_right_comm (m a b : List (List Nat)) :
    addRows (addRows m a) b = addRows (addRows m b) a := by
  induction m generalizing a b with
  | nil => cases a <;> cases b <;> rfl
  | cons row m ih =>
    cases a with
    | nil => cases b <;> rfl
    | cons ra a =>
      cases b with
      | nil => rfl
      | cons rb b =>
        simp only [addRows]
        rw [ih, zipWith_add_right_comm]

/-- the effect of one update on one cell, for ANY matrix and position list: `c` is added to cell
    `(r, col)` iff the position list has the entry `col` for row `r` and the cell exists. -/
theorem updRows_cell_general (m : List (List Nat)) (pos : List Nat) (c r col : Nat) :
    cell (updRows m pos c) r col
      = cell m r col + (if pos[r]? = some col ∧ col < (m.getD r []).length then c else 0) := by
  induction m generalizing pos r with
  | nil => cases pos <;> simp [updRows, cell]
  | cons row m ih =>
    cases pos with
    | nil => simp [updRows]
    | cons p pos =>
      cases r with
      | zero =>
        simp only [cell, updRows, List.getD_cons_zero, List.getElem?_cons_zero, Option.some.injEq]
        by_cases hp : p < row.length
        · rw [modAt_getD row p col (· + c) 0 hp]
          by_cases e : col = p
          · subst e; simp [hp]
          · have e' : ¬ p = col := fun h => e h.symm
            simp [e, e']
        · rw [modAt_of_ge row p _ (Nat.le_of_not_lt hp)]
          have : ¬ (p = col ∧ col < row.length) := by
            rintro ⟨rfl, h⟩; exact hp h
          simp [this]
      | succ r =>
        have := ih pos r
        simpa [cell, updRows] using this

end CMS

/-! ### Count-Min: the step alphabet with `Merge` -/

/-- one atomic step on the shared Count-Min sketch: a whole `Update` script, or a whole `Merge`
    script whose source matrix is a VALUE (the source sketch is not written concurrently). -/
inductive CMSStep where
  | update (pos : List Nat) (c : Nat)
  | mergeFrom (src : List (List Nat))
  deriving Repr, DecidableEq

def cmsStepM (s : CMS) : CMSStep → CMS
  | .update pos c => s.update pos c
  | .mergeFrom src => { s with m := CMS.addRows s.m src }

/-- the steps commute pairwise in every state — no well-formedness hypothesis -/
theorem cmsStepM_commute : Commute cmsStepM := by
  intro s a b
  cases a with
  | update p c =>
    cases b with
    | update q d => simp [cmsStepM, CMS.update, CMS.updRows_comm]
    | mergeFrom src => simp [cmsStepM, CMS.update, CMS.addRows_updRows]
  | mergeFrom src =>
    cases b with
    | update q d => simp [cmsStepM, CMS.update, CMS.addRows_updRows]
    | mergeFrom src' => simp only [cmsStepM]; rw [CMS.addRows_right_comm]

/-- a merge step is what `CMS.merge` does once the dimension check (done in Go, before the script)
    has passed -/
theorem cmsStepM_mergeFrom_eq_merge (a b : CMS) (hr : a.rows = b.rows) (hc : a.cols = b.cols) :
    CMS.merge a b = .ok (cmsStepM a (.mergeFrom b.m)) := by
  simp [CMS.merge, cmsStepM, hr, hc]

theorem cmsStepM_rows_cols (s : CMS) (a : CMSStep) :
    (cmsStepM s a).rows = s.rows ∧ (cmsStepM s a).cols = s.cols := by
  cases a <;> exact ⟨rfl, rfl⟩

/-- a step is well formed for a `rows × cols` sketch when a merge source has that shape
    (guaranteed by the dimension check of `Merge` for sketches that satisfy `CMS.WF`).  Updates
    need nothing. -/
def CMSStep.SrcOK (rows cols : Nat) : CMSStep → Prop
  | .update _ _ => True
  | .mergeFrom src => CMS.Shape src rows cols

theorem cmsStepM_shape (s : CMS) (a : CMSStep) (rows cols : Nat) (hs : CMS.Shape s.m rows cols)
    (ha : a.SrcOK rows cols) : CMS.Shape (cmsStepM s a).m rows cols := by
  cases a with
  | update p c => exact CMS.updRows_shape s.m p c rows cols hs
  | mergeFrom src => exact CMS.addRows_shape s.m src rows cols hs ha

/-- what an update step adds to cell `(r, col)` -/
def CMSStep.updHit (r col : Nat) : CMSStep → Nat
  | .update pos c => if pos[r]? = some col then c else 0
  | .mergeFrom _ => 0

/-- what a merge step adds to cell `(r, col)` -/
def CMSStep.srcCell (r col : Nat) : CMSStep → Nat
  | .update _ _ => 0
  | .mergeFrom src => CMS.cell src r col

theorem cmsStepM_cell (s : CMS) (a : CMSStep) (rows cols : Nat) (hs : CMS.Shape s.m rows cols)
    (ha : a.SrcOK rows cols) (r col : Nat) (hr : r < rows) (hc : col < cols) :
    CMS.cell (cmsStepM s a).m r col = CMS.cell s.m r col + a.updHit r col + a.srcCell r col := by
  cases a with
  | update p c =>
    show CMS.cell (CMS.updRows s.m p c) r col = _
    rw [CMS.updRows_cell_general, hs.row_length r hr]
    simp [CMSStep.updHit, CMSStep.srcCell, hc]
  | mergeFrom src =>
    show CMS.cell (CMS.addRows s.m src) r col = _
    rw [CMS.addRows_cell s.m src rows cols hs ha]
    simp [CMSStep.updHit, CMSStep.srcCell]

/-- the cell-level effect of a whole schedule on a well-shaped sketch -/
theorem exec_cmsStepM_cell (rows cols : Nat) (w : List CMSStep) (s : CMS)
    (hs : CMS.Shape s.m rows cols) (hw : ∀ a ∈ w, a.SrcOK rows cols)
    (r col : Nat) (hr : r < rows) (hc : col < cols) :
    CMS.cell (exec cmsStepM s w).m r col
      = CMS.cell s.m r col + sumL (w.map (CMSStep.updHit r col))
        + sumL (w.map (CMSStep.srcCell r col)) := by
  induction w generalizing s with
  | nil => simp [exec]
  | cons a w ih =>
    have ha := hw a List.mem_cons_self
    have : exec cmsStepM s (a :: w) = exec cmsStepM (cmsStepM s a) w := rfl
    rw [this, ih _ (cmsStepM_shape s a rows cols hs ha)
      (fun b hb => hw b (List.mem_cons_of_mem _ hb)),
      cmsStepM_cell s a rows cols hs ha r col hr hc]
    simp only [List.map_cons, sumL_cons]
    omega

theorem exec_cmsStepM_shape (rows cols : Nat) (w : List CMSStep) (s : CMS)
    (hs : CMS.Shape s.m rows cols) (hw : ∀ a ∈ w, a.SrcOK rows cols) :
    CMS.Shape (exec cmsStepM s w).m rows cols :=
  exec_invariant (f := cmsStepM) (fun s => CMS.Shape s.m rows cols) w
    (fun s hs a ha => cmsStepM_shape s a rows cols hs (hw a ha)) s hs

/-! ### HyperLogLog: the step alphabet with `Merge` -/

namespace HLL

/-- two merges into the same register file commute, for sources of any length (`mergeRegs` keeps
    the length of the target: a short source only touches a prefix, the surplus of a long one is
    ignored). -/
theorem mergeRegs_right_comm (r a b : List Nat) :
    mergeRegs (mergeRegs r a) b = mergeRegs (mergeRegs r b) a := by
  induction r generalizing a b with
  | nil => cases a <;> cases b <;> rfl
  | cons x r ih =>
    cases a with
    | nil => cases b <;> rfl
    | cons y a =>
      cases b with
      | nil => rfl
      | cons z b =>
        simp only [mergeRegs]
        rw [ih]; congr 1; omega

end HLL

/-- one atomic step on the shared register list: a whole `Update` script or a whole `Merge`
    script whose source register file is a VALUE. -/
inductive HLLStep where
  | update (idx val : Nat)
  | mergeFrom (src : List Nat)
  deriving Repr, DecidableEq

def hllStepM (regs : List Nat) : HLLStep → List Nat
  | .update idx val => HLL.upd regs (idx, val)
  | .mergeFrom src => HLL.mergeRegs regs src

/-- the steps commute pairwise in every state — no length hypothesis -/
theorem hllStepM_commute : Commute hllStepM := by
  intro s a b
  cases a with
  | update i v =>
    cases b with
    | update j u => exact HLL.upd_commute s (i, v) (j, u)
    | mergeFrom src => exact HLL.mergeRegs_upd_left s src (i, v)
  | mergeFrom src =>
    cases b with
    | update j u => exact (HLL.mergeRegs_upd_left s src (j, u)).symm
    | mergeFrom src' => exact HLL.mergeRegs_right_comm s src src'

theorem hllStepM_length (regs : List Nat) (a : HLLStep) : (hllStepM regs a).length = regs.length := by
  cases a with
  | update i v => exact HLL.upd_length regs (i, v)
  | mergeFrom src => exact HLL.mergeRegs_length regs src

/-- a merge step is what `HLL.merge` does once the size check has passed -/
theorem hllStepM_mergeFrom_eq_merge (a b : HLL) (hm : a.m = b.m) :
    HLL.merge a b = .ok { a with regs := hllStepM a.regs (.mergeFrom b.regs) } := by
  simp [HLL.merge, hllStepM, hm]

end Gostatix
