/-
  Gostatix.Proofs.CuckooSim — the simulation relation between the in-memory cuckoo filter
  (`BucketMem.ops emp`) and the Redis-backed one (`BucketRedis.ops emp`): same parameters, same
  `length`, both well-formed, and bucket by bucket the same multiset of non-empty fingerprints.
  The slot ORDER inside a bucket is not related (bucket_mem.go fills the first empty slot,
  bucket_redis.go `LPUSH`es at the head), which is why an eviction — it picks a slot INDEX — is
  not covered.
-/
import Gostatix.Proofs.CuckooMem
import Gostatix.Proofs.CuckooRedis
set_option linter.unusedSectionVars false
namespace Gostatix.Cuckoo

/-! ### generic facts (any lawful bucket implementation) -/

section generic
variable {B F : Type} [DecidableEq F] [Inhabited B] {o : BucketOps B F} {emp : F}

/-- the number of occupied slots is determined by the counts of the non-empty fingerprints -/
theorem occ_eq_of_count_eq (emp : F) (l1 l2 : List F)
    (h : ∀ g, g ≠ emp → l1.count g = l2.count g) : occ emp l1 = occ emp l2 := by
  unfold occ
  rw [List.countP_eq_length_filter, List.countP_eq_length_filter]
  apply List.Perm.length_eq
  rw [List.perm_iff_count]
  intro g
  by_cases hg : g = emp
  · have h1 : ∀ l : List F, (l.filter (fun x => decide (x ≠ emp))).count g = 0 := by
      intro l
      rw [List.count_eq_zero]
      intro hm
      have := (List.mem_filter.1 hm).2
      simp [hg] at this
    rw [h1, h1]
  · have hp : decide (g ≠ emp) = true := by simpa using hg
    rw [List.count_filter (p := fun x => decide (x ≠ emp)) hp,
      List.count_filter (p := fun x => decide (x ≠ emp)) hp]
    exact h g hg

theorem lookupB_iff (L : LawfulBucket o emp) (bs : List B) (j : Nat) (fp : F) :
    o.lookup (bucketAt bs j) fp = true ↔ 0 < cntB L bs j fp := by
  unfold cntB
  rw [L.lookup_eq, List.contains_iff_mem, List.count_pos_iff]

/-- the three ways `remove` can go -/
theorem remove_cases (c : Cuckoo B) (fp : F) (i1 i2 : Nat) :
    (o.lookup (bucketAt c.buckets i1) fp = true ∧
      remove o c fp i1 i2 =
        ({ c with buckets := modAt c.buckets i1 (fun b => o.remove b fp),
                  length := c.length - 1 }, true)) ∨
    (o.lookup (bucketAt c.buckets i1) fp = false ∧ o.lookup (bucketAt c.buckets i2) fp = true ∧
      remove o c fp i1 i2 =
        ({ c with buckets := modAt c.buckets i2 (fun b => o.remove b fp),
                  length := c.length - 1 }, true)) ∨
    (o.lookup (bucketAt c.buckets i1) fp = false ∧ o.lookup (bucketAt c.buckets i2) fp = false ∧
      remove o c fp i1 i2 = (c, false)) := by
  unfold remove
  by_cases h1 : o.lookup (bucketAt c.buckets i1) fp = true
  · left; exact ⟨h1, by rw [if_pos h1]⟩
  · right
    have h1' : o.lookup (bucketAt c.buckets i1) fp = false := by simpa using h1
    by_cases h2 : o.lookup (bucketAt c.buckets i2) fp = true
    · left; exact ⟨h1', h2, by rw [if_neg h1, if_pos h2]⟩
    · right
      have h2' : o.lookup (bucketAt c.buckets i2) fp = false := by simpa using h2
      exact ⟨h1', h2', by rw [if_neg h1, if_neg h2]⟩

/-- adding `fp` to bucket `j0` (which has room): well-formed again, counts as expected -/
theorem insert_direct (L : LawfulBucket o emp) (c : Cuckoo B) (fp : F) (j0 : Nat) (hwf : WF L c)
    (hj0 : j0 < c.n) (hfree : o.isFree (bucketAt c.buckets j0) = true) (hfp : fp ≠ emp) :
    WF L { c with buckets := modAt c.buckets j0 (fun b => o.add b fp), length := c.length + 1 } ∧
    ∀ j g, g ≠ emp → cntB L (modAt c.buckets j0 (fun b => o.add b fp)) j g
      = cntB L c.buckets j g + ind (j = j0 ∧ fp = g) := by
  have ad := add_step L c.n c.bsize c.buckets j0 fp hwf.bs hj0 hfree hfp
  exact ⟨⟨ad.wf, by simp only; rw [ad.tocc, hwf.len]⟩, ad.cnt⟩

/-- removing `fp` from bucket `j0` (which holds it): well-formed again, counts as expected -/
theorem remove_direct (L : LawfulBucket o emp) (c : Cuckoo B) (fp : F) (j0 : Nat) (hwf : WF L c)
    (hj0 : j0 < c.n) (hl : o.lookup (bucketAt c.buckets j0) fp = true) (hfp : fp ≠ emp) :
    WF L { c with buckets := modAt c.buckets j0 (fun b => o.remove b fp), length := c.length - 1 } ∧
    ∀ j g, g ≠ emp → cntB L (modAt c.buckets j0 (fun b => o.remove b fp)) j g
      + ind (j = j0 ∧ fp = g) = cntB L c.buckets j g := by
  rw [L.lookup_eq, List.contains_iff_mem] at hl
  have rm := remove_step L c.n c.bsize c.buckets j0 fp hwf.bs hj0 hfp hl
  have h1 := rm.tocc
  have h2 := hwf.len
  exact ⟨⟨rm.wf, by simp only; omega⟩, rm.cnt⟩

/-! ### histories: positions, the no-eviction condition, the observable trace -/

/-- the operation's element has a non-empty fingerprint and a valid first bucket (the second is
    `alt i1 fp`); nothing is asked of `side` / `slots` -/
def ValidPos (emp : F) (n : Nat) : COp F → Prop
  | .insert fp i1 _ _ _ => fp ≠ emp ∧ i1 < n
  | .remove fp i1 => fp ≠ emp ∧ i1 < n
  | .lookup fp i1 => fp ≠ emp ∧ i1 < n

/-- the operation does not take the eviction path: an insert finds room in one of its two
    candidate buckets -/
def NoKickOp (o : BucketOps B F) (alt : Nat → F → Nat) (c : Cuckoo B) : COp F → Prop
  | .insert fp i1 _ _ _ =>
    o.isFree (bucketAt c.buckets i1) = true ∨ o.isFree (bucketAt c.buckets (alt i1 fp)) = true
  | _ => True

/-- no insert of the history, run from `c`, takes the eviction path -/
def NoKick (o : BucketOps B F) (alt : Nat → F → Nat) : Cuckoo B → List (COp F) → Prop
  | _, [] => True
  | c, op :: h => NoKickOp o alt c op ∧ NoKick o alt (step o alt c op).1 h

/-- what a client observes: the Boolean returned by every operation and `length` after it -/
def trace (o : BucketOps B F) (alt : Nat → F → Nat) : Cuckoo B → List (COp F) → List (Bool × Nat)
  | _, [] => []
  | c, op :: h =>
    ((step o alt c op).2, (step o alt c op).1.length) :: trace o alt (step o alt c op).1 h

instance (emp : F) (n : Nat) (op : COp F) : Decidable (ValidPos emp n op) := by
  cases op <;> unfold ValidPos <;> infer_instance

instance (o : BucketOps B F) (alt : Nat → F → Nat) (c : Cuckoo B) (op : COp F) :
    Decidable (NoKickOp o alt c op) := by
  cases op <;> unfold NoKickOp <;> infer_instance

def NoKick.dec (o : BucketOps B F) (alt : Nat → F → Nat) :
    (c : Cuckoo B) → (h : List (COp F)) → Decidable (NoKick o alt c h)
  | _, [] => isTrue trivial
  | c, op :: h =>
    match (inferInstance : Decidable (NoKickOp o alt c op)),
        NoKick.dec o alt (step o alt c op).1 h with
    | isTrue h1, isTrue h2 => isTrue ⟨h1, h2⟩
    | isFalse h1, _ => isFalse (fun h => h1 h.1)
    | _, isFalse h2 => isFalse (fun h => h2 h.2)

instance (o : BucketOps B F) (alt : Nat → F → Nat) (c : Cuckoo B) (h : List (COp F)) :
    Decidable (NoKick o alt c h) := NoKick.dec o alt c h

end generic

/-! ### the simulation relation -/

section sim
variable {F : Type} [DecidableEq F] [Inhabited (BucketMem F)] [Inhabited (BucketRedis F)]

/-- the in-memory filter `m` and the Redis-backed filter `r` hold the same data -/
structure Sim (emp : F) (m : Cuckoo (BucketMem F)) (r : Cuckoo (BucketRedis F)) : Prop where
  n : m.n = r.n
  bsize : m.bsize = r.bsize
  fpl : m.fpl = r.fpl
  retries : m.retries = r.retries
  length : m.length = r.length
  wfm : Mem.WF emp m
  wfr : Redis.WF emp r
  /-- every bucket holds the same multiset of non-empty fingerprints -/
  cnt : ∀ j, j < m.n → ∀ f, f ≠ emp → Mem.cnt m j f = Redis.cnt r j f

variable {emp : F} {m : Cuckoo (BucketMem F)} {r : Cuckoo (BucketRedis F)}

theorem Sim.wfm' (h : Sim emp m r) : WF (BucketMem.lawful emp) m := (Mem.wf_iff emp m).1 h.wfm
theorem Sim.wfr' (h : Sim emp m r) : WF (BucketRedis.lawful emp) r := (Redis.wf_iff emp r).1 h.wfr

/-- hence the same occupancy, bucket by bucket … -/
theorem Sim.occ_eq (h : Sim emp m r) (j : Nat) (hj : j < m.n) :
    occ emp (bucketAt m.buckets j).elements = occ emp (bucketAt r.buckets j).list :=
  occ_eq_of_count_eq emp _ _ (fun g hg => h.cnt j hj g hg)

/-- … the same cached bucket lengths (`bucket.length` / the `_len` key) … -/
theorem Sim.bucketLen (h : Sim emp m r) (j : Nat) (hj : j < m.n) :
    (bucketAt m.buckets j).length = (bucketAt r.buckets j).len := by
  have h1 := (h.wfm.bucket _ (bucketAt_mem m.buckets j (by rw [h.wfm.nbuckets]; exact hj))).2.2
  have h2 := (h.wfr.bucket _ (bucketAt_mem r.buckets j
    (by rw [h.wfr.nbuckets, ← h.n]; exact hj))).2.2
  rw [h1, h2]; exact h.occ_eq j hj

/-- … and the same answer to "has this bucket room?" -/
theorem Sim.isFree (h : Sim emp m r) (j : Nat) (hj : j < m.n) :
    (BucketMem.ops emp).isFree (bucketAt m.buckets j)
      = (BucketRedis.ops emp).isFree (bucketAt r.buckets j) := by
  have w1 := h.wfm'.bs.at j hj
  have w2 := h.wfr'.bs.at j (by rw [← h.n]; exact hj)
  rw [Bool.eq_iff_iff, (BucketMem.lawful emp).isFree_iff _ _ w1,
    (BucketRedis.lawful emp).isFree_iff _ _ w2, ← h.bsize]
  have := h.occ_eq j hj
  show occ emp (bucketAt m.buckets j).elements < _ ↔ occ emp (bucketAt r.buckets j).list < _
  rw [this]

/-- bucket-level `lookup` agrees -/
theorem Sim.lookupB (h : Sim emp m r) (j : Nat) (hj : j < m.n) (fp : F) (hfp : fp ≠ emp) :
    (BucketMem.ops emp).lookup (bucketAt m.buckets j) fp
      = (BucketRedis.ops emp).lookup (bucketAt r.buckets j) fp := by
  rw [Bool.eq_iff_iff, lookupB_iff (BucketMem.lawful emp), lookupB_iff (BucketRedis.lawful emp)]
  have := h.cnt j hj fp hfp
  show 0 < Mem.cnt m j fp ↔ 0 < Redis.cnt r j fp
  rw [this]

/-- the two new filters are related -/
theorem sim_empty (emp : F) (n bsize fpl retries : Nat) :
    Sim emp (Mem.empty emp n bsize fpl retries) (Redis.empty n bsize fpl retries) where
  n := rfl
  bsize := rfl
  fpl := rfl
  retries := rfl
  length := rfl
  wfm := Mem.empty_wf emp n bsize fpl retries
  wfr := Redis.empty_wf emp n bsize fpl retries
  cnt := fun j hj f hf => by
    rw [Mem.empty_cnt emp n bsize fpl retries j f hj hf, Redis.empty_cnt n bsize fpl retries j f hj]

/-- `Lookup` agrees -/
theorem sim_lookup (h : Sim emp m r) (fp : F) (i1 i2 : Nat) (hfp : fp ≠ emp)
    (hi1 : i1 < m.n) (hi2 : i2 < m.n) :
    lookup (BucketMem.ops emp) m fp i1 i2 = lookup (BucketRedis.ops emp) r fp i1 i2 := by
  unfold lookup
  rw [h.lookupB i1 hi1 fp hfp, h.lookupB i2 hi2 fp hfp]

/-- the same modification of bucket `j0` on both sides, with the same effect on the counts and
    the same new `length`, keeps the relation -/
theorem sim_mod (h : Sim emp m r) (bm : List (BucketMem F)) (br : List (BucketRedis F)) (len : Nat)
    (wm : WF (BucketMem.lawful emp) { m with buckets := bm, length := len })
    (wr : WF (BucketRedis.lawful emp) { r with buckets := br, length := len })
    (hc : ∀ j, j < m.n → ∀ g, g ≠ emp →
      cntB (BucketMem.lawful emp) bm j g = cntB (BucketRedis.lawful emp) br j g) :
    Sim emp { m with buckets := bm, length := len } { r with buckets := br, length := len } where
  n := h.n
  bsize := h.bsize
  fpl := h.fpl
  retries := h.retries
  length := rfl
  wfm := (Mem.wf_iff emp _).2 wm
  wfr := (Redis.wf_iff emp _).2 wr
  cnt := hc

/-- `Remove` returns the same Boolean and keeps the relation -/
theorem sim_remove (h : Sim emp m r) (fp : F) (i1 i2 : Nat) (hfp : fp ≠ emp)
    (hi1 : i1 < m.n) (hi2 : i2 < m.n) :
    (remove (BucketMem.ops emp) m fp i1 i2).2 = (remove (BucketRedis.ops emp) r fp i1 i2).2 ∧
    Sim emp (remove (BucketMem.ops emp) m fp i1 i2).1 (remove (BucketRedis.ops emp) r fp i1 i2).1 := by
  have hi1r : i1 < r.n := by rw [← h.n]; exact hi1
  have hi2r : i2 < r.n := by rw [← h.n]; exact hi2
  have e1 := h.lookupB i1 hi1 fp hfp
  have e2 := h.lookupB i2 hi2 fp hfp
  have same : ∀ j0, j0 < m.n → (BucketMem.ops emp).lookup (bucketAt m.buckets j0) fp = true →
      Sim emp { m with buckets := modAt m.buckets j0 (fun b => (BucketMem.ops emp).remove b fp),
                       length := m.length - 1 }
        { r with buckets := modAt r.buckets j0 (fun b => (BucketRedis.ops emp).remove b fp),
                 length := r.length - 1 } := by
    intro j0 hj0 hl
    have hlr : (BucketRedis.ops emp).lookup (bucketAt r.buckets j0) fp = true := by
      rw [← h.lookupB j0 hj0 fp hfp]; exact hl
    obtain ⟨wm, cm⟩ := remove_direct (BucketMem.lawful emp) m fp j0 h.wfm' hj0 hl hfp
    obtain ⟨wr, cr⟩ := remove_direct (BucketRedis.lawful emp) r fp j0 h.wfr'
      (by rw [← h.n]; exact hj0) hlr hfp
    rw [← h.length] at wr ⊢
    refine sim_mod h _ _ _ wm wr ?_
    intro j hj g hg
    have a := cm j g hg
    have b := cr j g hg
    have c : cntB (BucketMem.lawful emp) m.buckets j g
        = cntB (BucketRedis.lawful emp) r.buckets j g := h.cnt j hj g hg
    omega
  rcases remove_cases (o := BucketMem.ops emp) m fp i1 i2 with
    ⟨l1, hm⟩ | ⟨l1, l2, hm⟩ | ⟨l1, l2, hm⟩
  · rcases remove_cases (o := BucketRedis.ops emp) r fp i1 i2 with
      ⟨k1, hr⟩ | ⟨k1, _, _⟩ | ⟨k1, _, _⟩
    · rw [hm, hr]; exact ⟨rfl, same i1 hi1 l1⟩
    · rw [e1, k1] at l1; cases l1
    · rw [e1, k1] at l1; cases l1
  · rcases remove_cases (o := BucketRedis.ops emp) r fp i1 i2 with
      ⟨k1, _⟩ | ⟨_, k2, hr⟩ | ⟨_, k2, _⟩
    · rw [e1, k1] at l1; cases l1
    · rw [hm, hr]; exact ⟨rfl, same i2 hi2 l2⟩
    · rw [e2, k2] at l2; cases l2
  · rcases remove_cases (o := BucketRedis.ops emp) r fp i1 i2 with
      ⟨k1, _⟩ | ⟨_, k2, _⟩ | ⟨_, _, hr⟩
    · rw [e1, k1] at l1; cases l1
    · rw [e2, k2] at l2; cases l2
    · rw [hm, hr]; exact ⟨rfl, h⟩

/-- an `Insert` that finds room in one of its two candidate buckets returns `.ok` on both sides
    and keeps the relation — for ANY `destructive` / `side` / `slots`, which may even differ
    between the two sides (they are never read on this path). -/
theorem sim_insert_nokick (h : Sim emp m r) (alt alt' : Nat → F → Nat) (fp : F) (i1 i2 : Nat)
    (d side d' side' : Bool) (slots slots' : List Nat) (hfp : fp ≠ emp)
    (hi1 : i1 < m.n) (hi2 : i2 < m.n)
    (hfree : (BucketMem.ops emp).isFree (bucketAt m.buckets i1) = true ∨
      (BucketMem.ops emp).isFree (bucketAt m.buckets i2) = true) :
    ∃ m' r', insert (BucketMem.ops emp) alt m fp i1 i2 d side slots = .ok m' ∧
      insert (BucketRedis.ops emp) alt' r fp i1 i2 d' side' slots' = .ok r' ∧ Sim emp m' r' := by
  have f1 := h.isFree i1 hi1
  have f2 := h.isFree i2 hi2
  have same : ∀ j0, j0 < m.n → (BucketMem.ops emp).isFree (bucketAt m.buckets j0) = true →
      Sim emp { m with buckets := modAt m.buckets j0 (fun b => (BucketMem.ops emp).add b fp),
                       length := m.length + 1 }
        { r with buckets := modAt r.buckets j0 (fun b => (BucketRedis.ops emp).add b fp),
                 length := r.length + 1 } := by
    intro j0 hj0 hf
    have hfr : (BucketRedis.ops emp).isFree (bucketAt r.buckets j0) = true := by
      rw [← h.isFree j0 hj0]; exact hf
    obtain ⟨wm, cm⟩ := insert_direct (BucketMem.lawful emp) m fp j0 h.wfm' hj0 hf hfp
    obtain ⟨wr, cr⟩ := insert_direct (BucketRedis.lawful emp) r fp j0 h.wfr'
      (by rw [← h.n]; exact hj0) hfr hfp
    rw [← h.length] at wr ⊢
    refine sim_mod h _ _ _ wm wr ?_
    intro j hj g hg
    rw [cm j g hg, cr j g hg]
    have c : cntB (BucketMem.lawful emp) m.buckets j g
        = cntB (BucketRedis.lawful emp) r.buckets j g := h.cnt j hj g hg
    rw [c]
  rcases insert_cases (o := BucketMem.ops emp) alt m fp i1 i2 d side slots with
    ⟨l1, hm⟩ | ⟨l1, l2, hm⟩ | ⟨l1, l2, _⟩
  · rcases insert_cases (o := BucketRedis.ops emp) alt' r fp i1 i2 d' side' slots' with
      ⟨k1, hr⟩ | ⟨k1, _, _⟩ | ⟨k1, _, _⟩
    · exact ⟨_, _, hm, hr, same i1 hi1 l1⟩
    · rw [f1, k1] at l1; cases l1
    · rw [f1, k1] at l1; cases l1
  · rcases insert_cases (o := BucketRedis.ops emp) alt' r fp i1 i2 d' side' slots' with
      ⟨k1, _⟩ | ⟨_, k2, hr⟩ | ⟨_, k2, _⟩
    · rw [f1, k1] at l1; cases l1
    · exact ⟨_, _, hm, hr, same i2 hi2 l2⟩
    · rw [f2, k2] at l2; cases l2
  · rcases hfree with hf | hf
    · rw [l1] at hf; cases hf
    · rw [l2] at hf; cases hf

/-- the no-eviction condition may be checked on either side -/
theorem sim_noKickOp_iff (h : Sim emp m r) (alt : Nat → F → Nat) (op : COp F)
    (hAlt : ∀ j f, j < m.n → alt j f < m.n) (hv : ValidPos emp m.n op) :
    NoKickOp (BucketMem.ops emp) alt m op ↔ NoKickOp (BucketRedis.ops emp) alt r op := by
  cases op with
  | insert fp i1 d side slots =>
    obtain ⟨_, hi1⟩ := hv
    show (_ = true ∨ _ = true) ↔ (_ = true ∨ _ = true)
    rw [h.isFree i1 hi1, h.isFree _ (hAlt i1 fp hi1)]
  | remove fp i1 => exact Iff.rfl
  | lookup fp i1 => exact Iff.rfl

/-- one operation of a history without eviction: same answer, related states -/
theorem sim_step (h : Sim emp m r) (alt : Nat → F → Nat) (op : COp F)
    (hAlt : ∀ j f, j < m.n → alt j f < m.n) (hv : ValidPos emp m.n op)
    (hnk : NoKickOp (BucketMem.ops emp) alt m op) :
    (step (BucketMem.ops emp) alt m op).2 = (step (BucketRedis.ops emp) alt r op).2 ∧
    Sim emp (step (BucketMem.ops emp) alt m op).1 (step (BucketRedis.ops emp) alt r op).1 := by
  cases op with
  | insert fp i1 d side slots =>
    obtain ⟨hfp, hi1⟩ := hv
    obtain ⟨m', r', hm, hr, hs⟩ := sim_insert_nokick h alt alt fp i1 (alt i1 fp) d side d side
      slots slots hfp hi1 (hAlt i1 fp hi1) hnk
    show CRes.isOk _ = CRes.isOk _ ∧ Sim emp (CRes.val _) (CRes.val _)
    rw [hm, hr]
    exact ⟨rfl, hs⟩
  | remove fp i1 =>
    obtain ⟨hfp, hi1⟩ := hv
    exact sim_remove h fp i1 (alt i1 fp) hfp hi1 (hAlt i1 fp hi1)
  | lookup fp i1 =>
    obtain ⟨hfp, hi1⟩ := hv
    exact ⟨sim_lookup h fp i1 (alt i1 fp) hfp hi1 (hAlt i1 fp hi1), h⟩

/-- a whole history without eviction: same observable trace, related final states -/
theorem sim_run (alt : Nat → F → Nat) (ops : List (COp F)) :
    ∀ (m : Cuckoo (BucketMem F)) (r : Cuckoo (BucketRedis F)), Sim emp m r →
      (∀ j f, j < m.n → alt j f < m.n) → (∀ op ∈ ops, ValidPos emp m.n op) →
      NoKick (BucketMem.ops emp) alt m ops →
      trace (BucketMem.ops emp) alt m ops = trace (BucketRedis.ops emp) alt r ops ∧
      Sim emp (run (BucketMem.ops emp) alt m ops) (run (BucketRedis.ops emp) alt r ops) := by
  induction ops with
  | nil => intro m r h _ _ _; exact ⟨rfl, h⟩
  | cons op ops ih =>
    intro m r h hAlt hv hnk
    obtain ⟨ha, hs⟩ := sim_step h alt op hAlt (hv op List.mem_cons_self) hnk.1
    have hn : (step (BucketMem.ops emp) alt m op).1.n = m.n := (step_params alt m op).1
    obtain ⟨ht, hf⟩ := ih _ _ hs (by rw [hn]; exact hAlt)
      (by rw [hn]; exact fun op' hop => hv op' (List.mem_cons_of_mem _ hop)) hnk.2
    refine ⟨?_, hf⟩
    simp only [trace, ha, hs.length, ht]

end sim
end Gostatix.Cuckoo
